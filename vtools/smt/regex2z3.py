"""Engine B1: translate the lexer's *live* compiled regular expressions into z3 regular expressions (DESIGN §1).

The pattern text is read from the imported module object (e.g. ``lex.RE_PROPERTY.pattern``) on every run and
parsed with the standard library's own regex parser; the parse tree is mapped mechanically to z3's regex theory.
Language questions (inclusion both ways against the RFC 9535 lexical rules) are then decided for strings of
*every* length.  Unsupported constructs raise :class:`Unsupported` (obligation inconclusive).

z3's character sort stops at U+2FFFF; code points above are folded onto U+2FFFF.  The folding is exact iff no
class boundary of either language lies strictly inside (U+2FFFF, U+10FFFF) — checked by :func:`fold`.
"""
from __future__ import annotations

import re
from typing import Any, List, Tuple

import z3

try:  # Python >= 3.11
    import re._constants as sre_c
    import re._parser as sre_p
except ImportError:  # pragma: no cover
    import sre_constants as sre_c
    import sre_parse as sre_p

Z3_MAX = 0x2FFFF
UNI_MAX = 0x10FFFF


class Unsupported(Exception):
    pass


def fold(cp: int) -> int:
    if cp <= Z3_MAX:
        return cp
    if cp == UNI_MAX:
        return Z3_MAX
    raise Unsupported("class boundary U+%X lies in the folded region" % cp)


def ch(cp: int):
    return z3.Unit(z3.CharVal(fold(cp)))  # a length-1 string constant


def rng(lo: int, hi: int):
    lo, hi = fold(lo), fold(hi)
    return z3.Range(z3.Unit(z3.CharVal(lo)), z3.Unit(z3.CharVal(hi)))


def lit(s: str):
    if s == "":
        return z3.Re(z3.StringVal(""))
    parts = [z3.Re(z3.Unit(z3.CharVal(fold(ord(c))))) for c in s]
    return parts[0] if len(parts) == 1 else z3.Concat(*parts)


def union(*rs):
    rs = [r for r in rs if r is not None]
    return rs[0] if len(rs) == 1 else z3.Union(*rs)


def concat(*rs):
    return rs[0] if len(rs) == 1 else z3.Concat(*rs)


ANYCHAR = None


def anychar():
    return rng(0, UNI_MAX)


def _category(cat) -> Any:
    if cat == sre_c.CATEGORY_DIGIT:
        raise Unsupported("\\d is Unicode-wide in str patterns")
    raise Unsupported("category %s" % cat)


def _in(items) -> Any:
    negate = False
    alts = []
    for op, av in items:
        if op == sre_c.NEGATE:
            negate = True
        elif op == sre_c.LITERAL:
            alts.append(rng(av, av))
        elif op == sre_c.RANGE:
            alts.append(rng(av[0], av[1]))
        elif op == sre_c.CATEGORY:
            alts.append(_category(av))
        else:
            raise Unsupported("class item %s" % op)
    r = union(*alts)
    if negate:
        r = z3.Intersect(anychar(), z3.Complement(r))
    return r


def from_parsed(p) -> Any:
    parts = []
    for op, av in p:
        if op == sre_c.LITERAL:
            parts.append(rng(av, av))
        elif op == sre_c.NOT_LITERAL:
            parts.append(z3.Intersect(anychar(), z3.Complement(rng(av, av))))
        elif op == sre_c.IN:
            parts.append(_in(av))
        elif op == sre_c.ANY:
            parts.append(z3.Intersect(anychar(), z3.Complement(rng(10, 10))))
        elif op in (sre_c.MAX_REPEAT, sre_c.MIN_REPEAT):
            lo, hi, sub = av
            r = from_parsed(sub)
            if hi == sre_c.MAXREPEAT:
                if lo == 0:
                    parts.append(z3.Star(r))
                elif lo == 1:
                    parts.append(z3.Plus(r))
                else:
                    parts.append(z3.Concat(z3.Loop(r, lo, lo), z3.Star(r)))
            elif lo == 0 and hi == 1:
                parts.append(z3.Option(r))
            else:
                parts.append(z3.Loop(r, lo, hi))
        elif op == sre_c.SUBPATTERN:
            parts.append(from_parsed(av[3]))
        elif op == sre_c.BRANCH:
            parts.append(union(*[from_parsed(b) for b in av[1]]))
        else:
            raise Unsupported("regex construct %s" % op)
    if not parts:
        return z3.Re(z3.StringVal(""))
    return concat(*parts)


def from_pattern(pat) -> Any:
    """z3 regex for the full-match language of a compiled ``re`` pattern (flags must be plain unicode)."""
    if pat.flags & ~re.UNICODE:
        raise Unsupported("flags %r" % pat.flags)
    return from_parsed(sre_p.parse(pat.pattern))


def decode_model_string(sv) -> str:
    """Python str of a z3 string value (handles \\u{...} escapes)."""
    s = sv.as_string()

    def rep(m):
        return chr(int(m.group(1), 16))

    return re.sub(r"\\u\{([0-9a-fA-F]+)\}", rep, s)


def included(a, b, timeout_ms: int = 60000, extra=None):
    """Is L(a) a subset of L(b)?  -> ("unsat", None, s) yes | ("sat", witness_str, s) no | ("unknown", None, s)."""
    import time

    s = z3.String("s")
    sol = z3.Solver()
    sol.set("timeout", timeout_ms)
    sol.add(z3.InRe(s, a))
    sol.add(z3.Not(z3.InRe(s, b)))
    if extra is not None:
        sol.add(extra(s))
    t0 = time.time()
    r = sol.check()
    dt = time.time() - t0
    if r == z3.sat:
        return "sat", decode_model_string(sol.model()[s]), dt
    return str(r), None, dt


# ------------------------------------------------------------------ RFC 9535 lexical rules as z3 regexes (from the ABNF)
def rfc_alpha():
    return union(rng(0x41, 0x5A), rng(0x61, 0x7A))


def rfc_digit():
    return rng(0x30, 0x39)


def rfc_name_first():
    return union(rfc_alpha(), lit("_"), rng(0x80, 0xD7FF), rng(0xE000, UNI_MAX))


def rfc_name_char():
    return union(rfc_name_first(), rfc_digit())


def rfc_member_name_shorthand():
    return concat(rfc_name_first(), z3.Star(rfc_name_char()))


def rfc_function_name():
    lc = rng(0x61, 0x7A)
    return concat(lc, z3.Star(union(lc, lit("_"), rfc_digit())))


def rfc_blank_run():
    return z3.Plus(union(lit(" "), lit("\t"), lit("\n"), lit("\r")))


def rfc_int():
    return union(lit("0"), concat(z3.Option(lit("-")), rng(0x31, 0x39), z3.Star(rfc_digit())))


def rfc_number():
    frac = concat(lit("."), z3.Plus(rfc_digit()))
    exp = concat(union(lit("e"), lit("E")), z3.Option(union(lit("-"), lit("+"))), z3.Plus(rfc_digit()))
    return concat(union(rfc_int(), lit("-0")), z3.Option(frac), z3.Option(exp))
