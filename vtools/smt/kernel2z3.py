"""Engine B2: translate small integer kernels of the *real* source into z3 terms (DESIGN §1, F20).

The function's source is re-read from /repo with ``inspect`` on every run and interpreted over z3
terms with ``ite`` state merging: one call yields a list of guarded outcomes
``(guard, ("return", value))`` / ``(guard, ("raise", exception_class_name))`` whose guards partition
the input space.  Unsupported syntax raises :class:`Unsupported` — the obligation is then
*inconclusive*, never a pass and never a violation.
"""
from __future__ import annotations

import ast
import inspect
import textwrap
from typing import Any, Callable, Dict, List, Tuple

import z3


class Unsupported(Exception):
    pass


def _is_z3(v: Any) -> bool:
    return isinstance(v, z3.ExprRef)


def _bool(v: Any):
    """Python truthiness of a value as a z3 Bool or Python bool."""
    if isinstance(v, bool):
        return v
    if _is_z3(v):
        if z3.is_bool(v):
            return v
        if z3.is_int(v):
            return v != 0
        if z3.is_bv(v):
            return v != z3.BitVecVal(0, v.size())
        raise Unsupported("truthiness of %r" % (v,))
    if v is None:
        return False
    if isinstance(v, (int, str, tuple, list)):
        return bool(v)
    raise Unsupported("truthiness of %r" % (type(v),))


def And(a, b):
    if a is True:
        return b
    if b is True:
        return a
    if a is False or b is False:
        return False
    return z3.And(a, b)


def Or(a, b):
    if a is False:
        return b
    if b is False:
        return a
    if a is True or b is True:
        return True
    return z3.Or(a, b)


def Not(a):
    if isinstance(a, bool):
        return not a
    return z3.Not(a)


def Ite(c, a, b):
    if c is True:
        return a
    if c is False:
        return b
    if a is b:
        return a
    if not _is_z3(a) and not _is_z3(b):
        if type(a) is type(b) and a == b:
            return a
        if isinstance(a, bool) and isinstance(b, bool):
            return z3.If(c, z3.BoolVal(a), z3.BoolVal(b))
        if isinstance(a, int) and isinstance(b, int):
            return z3.If(c, z3.IntVal(a), z3.IntVal(b))
        if isinstance(a, tuple) and isinstance(b, tuple) and len(a) == len(b):
            return tuple(Ite(c, x, y) for x, y in zip(a, b))
        raise Unsupported("merge of %r and %r" % (a, b))
    if isinstance(a, tuple) and isinstance(b, tuple) and len(a) == len(b):
        return tuple(Ite(c, x, y) for x, y in zip(a, b))
    a2, b2 = _coerce_pair(a, b)
    return z3.If(c, a2, b2)


def _coerce_pair(a, b):
    if _is_z3(a) and not _is_z3(b):
        b = _lift(b, a)
    elif _is_z3(b) and not _is_z3(a):
        a = _lift(a, b)
    return a, b


def _lift(v, like):
    if isinstance(v, bool):
        if z3.is_bool(like):
            return z3.BoolVal(v)
        v = int(v)
    if isinstance(v, int):
        if z3.is_bv(like):
            return z3.BitVecVal(v, like.size())
        if z3.is_int(like):
            return z3.IntVal(v)
    raise Unsupported("cannot lift %r like %r" % (v, like))


class Interp:
    """Interpret one function body over z3 terms."""

    def __init__(self, fn: Callable, globals_: Dict[str, Any] = None, calls: Dict[str, Callable] = None):
        src = textwrap.dedent(inspect.getsource(fn))
        tree = ast.parse(src)
        self.fndef = tree.body[0]
        if not isinstance(self.fndef, ast.FunctionDef):
            raise Unsupported("not a function")
        self.source = src
        self.globals = dict(getattr(fn, "__globals__", {}))
        if globals_:
            self.globals.update(globals_)
        self.calls = calls or {}
        self.outcomes: List[Tuple[Any, Tuple[str, Any]]] = []

    # ---------------------------------------------------------------- driver
    def run(self, *args: Any, **kwargs: Any):
        a = self.fndef.args
        if a.vararg and len(a.args) <= len(args):
            state = {p.arg: v for p, v in zip(a.args, args)}
            state[a.vararg.arg] = tuple(args[len(a.args):])
        else:
            names = [p.arg for p in a.args]
            if len(args) > len(names):
                raise Unsupported("too many args")
            state = dict(zip(names, args))
        for k in a.kwonlyargs:
            if k.arg in kwargs:
                state[k.arg] = kwargs[k.arg]
        state.update({k: v for k, v in kwargs.items() if k not in state})
        self.outcomes = []
        st, live = self.block(self.fndef.body, state, True)
        self.final_state = st
        if live is not False:
            self.outcomes.append((live, ("return", None)))
        return self.outcomes

    # ---------------------------------------------------------------- statements
    def block(self, stmts, state, guard):
        live = guard
        for s in stmts:
            if live is False:
                break
            state, live = self.stmt(s, state, live)
        return state, live

    def stmt(self, s, state, guard):
        if isinstance(s, ast.Expr):
            if isinstance(s.value, ast.Constant):  # docstring
                return state, guard
            v = s.value
            if (isinstance(v, ast.Call) and isinstance(v.func, ast.Attribute) and v.func.attr == "__init__"
                    and isinstance(v.func.value, ast.Call) and isinstance(v.func.value.func, ast.Name) and v.func.value.func.id == "super"):
                return state, guard  # super().__init__(...): base-class field assignment, no integer behaviour
            self.expr(s.value, state)
            return state, guard
        if isinstance(s, ast.Return):
            v = None if s.value is None else self.expr(s.value, state)
            self.outcomes.append((guard, ("return", v)))
            return state, False
        if isinstance(s, ast.Raise):
            name = "Exception"
            exc = s.exc
            if isinstance(exc, ast.Call):
                exc = exc.func
            if isinstance(exc, ast.Name):
                name = exc.id
            elif isinstance(exc, ast.Attribute):
                name = exc.attr
            self.outcomes.append((guard, ("raise", name)))
            return state, False
        if isinstance(s, ast.Assign):
            v = self.expr(s.value, state)
            state = dict(state)
            for t in s.targets:
                self.assign(t, v, state)
            return state, guard
        if isinstance(s, ast.AnnAssign):
            if s.value is None:
                return state, guard
            state = dict(state)
            self.assign(s.target, self.expr(s.value, state), state)
            return state, guard
        if isinstance(s, ast.AugAssign):
            cur = self.expr(s.target, state)
            v = self.binop(s.op, cur, self.expr(s.value, state))
            state = dict(state)
            self.assign(s.target, v, state)
            return state, guard
        if isinstance(s, ast.If):
            c = _bool(self.expr(s.test, state))
            if c is True:
                return self.block(s.body, state, guard)
            if c is False:
                return self.block(s.orelse, state, guard)
            st1, l1 = self.block(s.body, dict(state), And(guard, c))
            st2, l2 = self.block(s.orelse, dict(state), And(guard, Not(c)))
            if l1 is False:
                return st2, l2
            if l2 is False:
                return st1, l1
            merged = {}
            for k in set(st1) | set(st2):
                if k in st1 and k in st2:
                    merged[k] = Ite(c, st1[k], st2[k])
                # variables defined on one side only are dropped (would be an UnboundLocalError risk)
            return merged, Or(l1, l2)
        if isinstance(s, ast.For):
            it = self.expr(s.iter, state)
            if not isinstance(it, (tuple, list)):
                raise Unsupported("for over non-concrete sequence")
            live = guard
            for item in it:
                if live is False:
                    break
                state = dict(state)
                self.assign(s.target, item, state)
                state, live = self.block(s.body, state, live)
            if s.orelse:
                raise Unsupported("for-else")
            return state, live
        if isinstance(s, ast.Pass):
            return state, guard
        if isinstance(s, ast.Assert):
            return state, guard
        raise Unsupported("statement %s" % type(s).__name__)

    def assign(self, target, v, state):
        if isinstance(target, ast.Name):
            state[target.id] = v
        elif isinstance(target, (ast.Tuple, ast.List)):
            if not isinstance(v, (tuple, list)) or len(v) != len(target.elts):
                raise Unsupported("unpack")
            for t, x in zip(target.elts, v):
                self.assign(t, x, state)
        elif isinstance(target, ast.Attribute) and isinstance(target.value, ast.Name):
            state[target.value.id + "." + target.attr] = v
        else:
            raise Unsupported("assignment target %s" % type(target).__name__)

    # ---------------------------------------------------------------- expressions
    def expr(self, e, state):
        if isinstance(e, ast.Constant):
            return e.value
        if isinstance(e, ast.Name):
            if e.id in state:
                return state[e.id]
            if e.id in self.calls:
                return self.calls[e.id]
            if e.id in self.globals:
                return self.globals[e.id]
            import builtins

            if hasattr(builtins, e.id):
                return getattr(builtins, e.id)
            raise Unsupported("unknown name %s" % e.id)
        if isinstance(e, ast.Attribute):
            if isinstance(e.value, ast.Name) and (e.value.id + "." + e.attr) in state:
                return state[e.value.id + "." + e.attr]
            base = self.expr(e.value, state)
            try:
                return getattr(base, e.attr)
            except AttributeError:
                raise Unsupported("attribute %s" % e.attr)
        if isinstance(e, ast.Tuple):
            return tuple(self.expr(x, state) for x in e.elts)
        if isinstance(e, ast.List):
            return [self.expr(x, state) for x in e.elts]
        if isinstance(e, ast.UnaryOp):
            v = self.expr(e.operand, state)
            if isinstance(e.op, ast.Not):
                return Not(_bool(v))
            if isinstance(e.op, ast.USub):
                return -v
            if isinstance(e.op, ast.UAdd):
                return v
            raise Unsupported("unary op")
        if isinstance(e, ast.BinOp):
            return self.binop(e.op, self.expr(e.left, state), self.expr(e.right, state))
        if isinstance(e, ast.BoolOp):
            is_and = isinstance(e.op, ast.And)
            out = True if is_and else False
            for x in e.values:  # operands here are side-effect free; concrete values short-circuit
                v = _bool(self.expr(x, state))
                out = And(out, v) if is_and else Or(out, v)
                if out is (False if is_and else True):
                    break
            return out
        if isinstance(e, ast.Compare):
            left = self.expr(e.left, state)
            out: Any = True
            for op, r in zip(e.ops, e.comparators):
                right = self.expr(r, state)
                out = And(out, self.compare(op, left, right))
                left = right
            return out
        if isinstance(e, ast.IfExp):
            c = _bool(self.expr(e.test, state))
            if c is True:
                return self.expr(e.body, state)
            if c is False:
                return self.expr(e.orelse, state)
            return Ite(c, self.expr(e.body, state), self.expr(e.orelse, state))
        if isinstance(e, ast.Call):
            fn = self.expr(e.func, state)
            args = []
            for a in e.args:
                if isinstance(a, ast.Starred):
                    args.extend(self.expr(a.value, state))
                else:
                    args.append(self.expr(a, state))
            kwargs = {k.arg: self.expr(k.value, state) for k in e.keywords}
            return self.call(fn, args, kwargs)
        if isinstance(e, ast.Subscript):
            base = self.expr(e.value, state)
            if isinstance(e.slice, ast.Slice):
                lo = None if e.slice.lower is None else self.expr(e.slice.lower, state)
                hi = None if e.slice.upper is None else self.expr(e.slice.upper, state)
                if hasattr(base, "z3_slice"):
                    return base.z3_slice(lo, hi)
                if isinstance(base, (tuple, list, str)) and not _is_z3(lo) and not _is_z3(hi):
                    return base[lo:hi]
                raise Unsupported("slice")
            idx = self.expr(e.slice, state)
            if hasattr(base, "z3_index"):
                return base.z3_index(idx)
            if isinstance(base, (tuple, list, str, dict)) and not _is_z3(idx):
                return base[idx]
            raise Unsupported("subscript")
        if isinstance(e, ast.JoinedStr):
            return "<formatted>"
        raise Unsupported("expression %s" % type(e).__name__)

    def call(self, fn, args, kwargs):
        import builtins

        if fn is builtins.len:
            (x,) = args
            if hasattr(x, "z3_len"):
                return x.z3_len()
            if isinstance(x, (tuple, list, str)):
                return len(x)
            raise Unsupported("len")
        if fn is builtins.abs:
            (x,) = args
            return z3.If(x >= 0, x, -x) if _is_z3(x) else abs(x)
        if fn is builtins.min or fn is builtins.max:
            out = args[0]
            for v in args[1:]:
                c = (v < out) if fn is builtins.min else (v > out)
                out = Ite(_bool(c), v, out) if _is_z3(c) else (v if c else out)
            return out
        if fn is builtins.isinstance:
            x, t = args
            if hasattr(x, "z3_isinstance"):
                return x.z3_isinstance(t)
            if _is_z3(x):
                if t is int:
                    return bool(z3.is_int(x) or z3.is_bv(x))
                raise Unsupported("isinstance on term")
            return isinstance(x, t)
        if fn is builtins.ord or fn is builtins.chr or fn is builtins.str or fn is builtins.int:
            (x,) = args
            if _is_z3(x):
                if fn is builtins.int:
                    return x
                if hasattr(x, "z3_" + fn.__name__):
                    return getattr(x, "z3_" + fn.__name__)()
                return ("<%s>" % fn.__name__, x)
            return fn(x)
        if callable(fn) and getattr(fn, "_z3_callable", False):
            return fn(*args, **kwargs)
        if inspect.ismethod(fn) or inspect.isfunction(fn):
            # inline a helper of the same class/module
            sub = Interp(fn, calls=self.calls)
            bound = [fn.__self__] if inspect.ismethod(fn) and not isinstance(fn.__self__, type) else []
            outs = sub.run(*(bound + list(args)), **kwargs)
            return _InlineResult(outs)
        raise Unsupported("call of %r" % (fn,))

    def binop(self, op, a, b):
        if isinstance(a, _InlineResult) or isinstance(b, _InlineResult):
            raise Unsupported("arithmetic on inlined call result")
        if isinstance(op, ast.Add):
            return a + b
        if isinstance(op, ast.Sub):
            return a - b
        if isinstance(op, ast.Mult):
            return a * b
        if isinstance(op, (ast.LShift, ast.RShift, ast.BitOr, ast.BitAnd, ast.BitXor)):
            if _is_z3(a) or _is_z3(b):
                a, b = _coerce_pair(a, b)
                if not (z3.is_bv(a) and z3.is_bv(b)):
                    raise Unsupported("bitwise op on mathematical ints (use bit-vector mode)")
            if isinstance(op, ast.LShift):
                return a << b
            if isinstance(op, ast.RShift):
                return z3.LShR(a, b) if _is_z3(a) else a >> b
            if isinstance(op, ast.BitOr):
                return a | b
            if isinstance(op, ast.BitAnd):
                return a & b
            return a ^ b
        if isinstance(op, ast.FloorDiv) and not _is_z3(b) and isinstance(b, int) and b > 0:
            return a / b if (_is_z3(a) and z3.is_int(a)) else a // b
        if isinstance(op, ast.Mod) and not _is_z3(b) and isinstance(b, int) and b > 0:
            return a % b
        raise Unsupported("binary op %s" % type(op).__name__)

    def compare(self, op, a, b):
        if isinstance(op, (ast.Is, ast.IsNot)):
            if _is_z3(a) or _is_z3(b):
                if a is None or b is None:
                    r = False  # a term is never None
                else:
                    raise Unsupported("identity of terms")
            else:
                r = a is b
            return r if isinstance(op, ast.Is) else (not r)
        if _is_z3(a) or _is_z3(b):
            a, b = _coerce_pair(a, b)
            bv = z3.is_bv(a)
            if isinstance(op, ast.Eq):
                return a == b
            if isinstance(op, ast.NotEq):
                return a != b
            if isinstance(op, ast.Lt):
                return z3.ULT(a, b) if bv else a < b
            if isinstance(op, ast.LtE):
                return z3.ULE(a, b) if bv else a <= b
            if isinstance(op, ast.Gt):
                return z3.UGT(a, b) if bv else a > b
            if isinstance(op, ast.GtE):
                return z3.UGE(a, b) if bv else a >= b
            raise Unsupported("comparison")
        import operator

        table = {ast.Eq: operator.eq, ast.NotEq: operator.ne, ast.Lt: operator.lt, ast.LtE: operator.le, ast.Gt: operator.gt, ast.GtE: operator.ge}
        for k, f in table.items():
            if isinstance(op, k):
                return f(a, b)
        if isinstance(op, ast.In):
            return a in b
        if isinstance(op, ast.NotIn):
            return a not in b
        raise Unsupported("comparison")


class _InlineResult:
    def __init__(self, outcomes):
        self.outcomes = outcomes


def outcome_guard(outcomes, kind: str, pred: Callable[[Any], Any] = None):
    """Disjunction of the guards of outcomes of the given kind ("return"/"raise") satisfying pred(value)."""
    g: Any = False
    for guard, (k, v) in outcomes:
        if k != kind:
            continue
        c = True if pred is None else pred(v)
        g = Or(g, And(guard, c))
    return g


def prove(claim, timeout_ms: int = 60000, assumptions=()):
    """Return ("unsat"|"sat"|"unknown", model_or_None, seconds) for the *negation* of claim."""
    import time

    s = z3.Solver()
    s.set("timeout", timeout_ms)
    for a in assumptions:
        s.add(a)
    if isinstance(claim, bool):
        claim = z3.BoolVal(claim)
    s.add(z3.Not(claim))
    t0 = time.time()
    r = s.check()
    dt = time.time() - t0
    if r == z3.sat:
        return "sat", s.model(), dt
    return str(r), None, dt
