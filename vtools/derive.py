"""Derivation generator: valid RFC 9535 queries enumerated from the ABNF to a bounded depth (DESIGN §3.3 second self-test,
§3.4 derivation instances).  Everything emitted must be valid for the reference recogniser (checked by the self-test); the
corpus widens the structural combinations (function call x bracketed selection x filter nesting x logical operators) beyond the
hand-written seeds.  The sweep over it is a finite enumeration of derivations (concrete runs), labelled as such in evidence."""
from __future__ import annotations

import itertools
from typing import List

NAMES = [".a", "['b']", '["c"]']
INDEXES = ["[0]", "[-1]"]
SLICES = ["[1:]", "[:2:1]", "[::-1]"]
WILDS = [".*", "[*]"]


def singular_queries(root: str) -> List[str]:
    return [root, root + ".a", root + "['b'][0]", root + "[1].c"]


def queries(root: str, depth: int) -> List[str]:
    """Embedded queries (any shape) usable as tests / NodesType arguments."""
    out = [root, root + ".a", root + "[0]", root + ".*", root + "..a", root + "[1:]", root + "['a','b']", root + "[0, 1]", root + ".a[*].b"]
    if depth > 0:
        for f in filters(depth - 1)[:6]:
            out.append(root + "[?" + f + "]")
            out.append(root + "[?" + f + ", 0]")
            out.append(root + "[?" + f + ", ?@.z]")
            out.append(root + "..[?" + f + "]")
    return out


def comparables(depth: int) -> List[str]:
    out = ["1", "-2.5", "1e2", "'s'", '"t"', "true", "null"] + singular_queries("@")[1:] + singular_queries("$")[1:3]
    out += ["length(@.a)", "count(@.*)", "value(@..a)"]
    if depth > 0:
        out += ["count(" + q + ")" for q in queries("@", depth - 1)[9:13]]
        out += ["length(value(" + q + "))" for q in queries("@", depth - 1)[9:11]]
    return out


def filters(depth: int) -> List[str]:
    """logical-expr texts."""
    tests = ["@.a", "$.b[0]", "@", "@.*", "@..a", "match(@.a, 'x')", "search(@.b, \"y.\")"]
    cmps = ["@.a == 1", "@.a != 'x'", "1 < @.b", "@.a <= @.b", "length(@.a) >= 2", "count(@.*) > 1", "value(@..a) == null", "$.k == @"]
    base = tests + cmps
    out = list(base)
    out += ["!" + t for t in tests[:4]] + ["!(" + c + ")" for c in cmps[:3]]
    if depth > 0:
        sub = filters(depth - 1)
        pick = sub[:5] + sub[7:10] + sub[-3:]
        for a, b in itertools.product(pick[:6], pick[3:8]):
            out.append(a + " && " + b)
            out.append(a + "||" + b)
        for a in pick:
            out.append("(" + a + ")")
            out.append("!(" + a + ")")
            out.append("( " + a + " ) && @.z")
            out.append("@.z || (" + a + ")")
        for q in queries("@", depth - 1)[9:]:
            out.append(q)
            out.append("count(" + q + ") > 1")
            out.append("count( " + q + " )==0")
            out.append("value(" + q + ") == 1")
            out.append("!" + q)
        out += ["match(value(" + q + "), 'a')" for q in queries("@", depth - 1)[9:12]]
    seen = set()
    ded = []
    for f in out:
        if f not in seen:
            seen.add(f)
            ded.append(f)
    return ded


def corpus(depth: int = 2, limit: int = 4000) -> List[str]:
    out = ["$"]
    segs = NAMES + INDEXES + SLICES + WILDS + ["..a", "..*", "..[0]", "['a', 0, *, 1:2]", "[ 'a' ,0 ]"]
    for s in segs:
        out.append("$" + s)
    for a, b in itertools.product(segs[:6], segs[4:]):
        out.append("$" + a + b)
    fs = filters(depth)
    for f in fs:
        out.append("$[?" + f + "]")
    for f in fs[::7]:
        out.append("$.a[? " + f + " ]")
        out.append("$[0, ?" + f + ", 'x']")
        out.append("$..[?" + f + "]")
    seen = set()
    ded = []
    for q in out:
        if q not in seen:
            seen.add(q)
            ded.append(q)
    return ded[:limit]
