"""Solver-based verification machinery for python-jsonpath-rfc9535 (see /verif/DESIGN.md)."""
