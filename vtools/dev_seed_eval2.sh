#!/bin/sh
# development aid: evaluate a seeded change that is applied in a scratch worktree, without touching /repo.
# usage: vtools/dev_seed_eval2.sh <ID> <worktree> <outdir> [check-id] [tier]
id="$1"; wt="$2"; out="$3"; chk="${4:-$id}"; tier="${5:-quick}"
echo "== diff"; git -C "$wt" diff --stat | tail -2
echo "== demo on /repo (unchanged)"; LIB=/repo /venv/bin/python "$out/demo.py" >/tmp/sd0.$id.txt 2>&1; echo "rc=$?"
echo "== baseline in worktree"; (cd "$wt" && PYTHONPATH="$wt" /venv/bin/python -m pytest -q -p no:cacheprovider --timeout=900 --continue-on-collection-errors 2>&1 | tail -1)
echo "== demo in worktree"; LIB="$wt" /venv/bin/python "$out/demo.py" >/tmp/sd1.$id.txt 2>&1; echo "rc=$?"; tail -2 /tmp/sd1.$id.txt | cut -c1-250
echo "== check $chk ($tier) against the worktree"
cd /verif && VERIF_REPO="$wt" ./check "$chk" --tier "$tier" --no-evidence 2>&1 | grep -E "SUMMARY|VIOLATION|HARNESS|UNDECIDED" | head -5 | cut -c1-330
