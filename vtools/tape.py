"""M7: every outcome of the stdlib ``random`` functions the library uses, driven by solver variables (DESIGN §3.2, F18).

``ChoiceTape`` stands in for the ``random`` module object seen by segments.py / selectors.py.  Each draw is a fresh symbolic
integer (reduced modulo the number of alternatives), so the executor explores *every* branch of the choice tree, not the likely
ones.  In a replay the recorded draws are fed back, which reproduces one concrete outcome of the real generator's range:
shuffle reaches every permutation (Fisher-Yates with independent draws), choice every element, sample(pop, k) every ordered
k-selection of *distinct objects* of the population (the only thing a caller can observe).
"""
from __future__ import annotations

from typing import Any, List

from vtools import hcommon


class ChoiceTape:
    def __init__(self) -> None:
        self.n = 0

    def draw(self, k: int) -> int:
        if k <= 1:
            return 0
        i = self.n
        self.n += 1
        return hcommon.sym_choice("t%d" % i, k)

    # --- the subset of the random API used by the library
    def choice(self, seq):
        return seq[self.draw(len(seq))]

    def shuffle(self, x) -> None:
        for i in range(len(x) - 1, 0, -1):
            j = self.draw(i + 1)
            x[i], x[j] = x[j], x[i]

    def sample(self, population, k):
        pool = list(population)
        out = []
        for _ in range(k):
            distinct: List[Any] = []
            for o in pool:
                if not any(o is d for d in distinct):
                    distinct.append(o)
            o = distinct[self.draw(len(distinct))]
            out.append(o)
            for idx, p in enumerate(pool):
                if p is o:
                    del pool[idx]
                    break
        return out


def install(tape: ChoiceTape) -> None:
    """Substitute the ``random`` name in the two modules that use it (harness side; also in replays, with recorded draws)."""
    from jsonpath_rfc9535 import segments, selectors

    segments.random = tape
    selectors.random = tape


def validate_tape() -> int:
    """Concrete validation: with all draw sequences enumerated, shuffle yields exactly all permutations and sample all
    ordered selections of distinct objects, for n <= 4."""
    import itertools

    from vtools import inst

    n_cases = 0

    def run_all(fn):
        """Enumerate every draw sequence by DFS over recorded arities."""
        results = []
        stack = [[]]
        while stack:
            prefix = stack.pop()
            inst.FRESH.clear()
            inst.FRESH_REPLAY.clear()
            arities = []

            class T(ChoiceTape):
                def draw(self, k):
                    if k <= 1:
                        return 0
                    i = self.n
                    self.n += 1
                    arities.append(k)
                    return prefix[i] if i < len(prefix) else 0

            t = T()
            r = fn(t)
            if len(arities) > len(prefix):
                # extend: explore siblings of the first unexplored position
                i = len(prefix)
                for v in range(arities[i]):
                    stack.append(prefix + [v])
                continue
            results.append(r)
        return results

    for n in range(0, 5):
        def sh(t, n=n):
            x = list(range(n))
            t.shuffle(x)
            return tuple(x)

        got = set(run_all(sh))
        assert got == set(itertools.permutations(range(n))), (n, got)
        n_cases += len(got)
    objs = [object(), object()]
    pop = [objs[0], objs[0], objs[1]]

    def sm(t):
        return tuple(id(o) for o in t.sample(pop, 3))

    got = set(run_all(sm))
    want = set(tuple(id(o) for o in p) for p in itertools.permutations(pop))
    assert got == want
    return n_cases + len(got)
