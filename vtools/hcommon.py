"""Shared symbolic input builders and the model environment (DESIGN §3.2, §3.4).

Importable without CrossHair (replays run the same harness code on the real classes: in replay mode
``model_env()`` returns a plain ``JSONPathEnvironment`` and no stub is installed).
"""
from __future__ import annotations

import sys
from typing import Any, Dict, List, Optional

import jsonpath_rfc9535 as jp
from jsonpath_rfc9535 import JSONPathEnvironment

from vtools import inst
from vtools.inst import assume, fresh


# ------------------------------------------------------------------ symbolic text
def sym_char(name: str) -> str:
    """One symbolic character ranging over every Unicode scalar value."""
    c = fresh(int, name)
    assume(0 <= c <= 0x10FFFF)
    assume(not (0xD800 <= c <= 0xDFFF))
    return chr(c)


def sym_fragment(k: int, prefix: str = "c") -> str:
    return "".join(sym_char("%s%d" % (prefix, i)) for i in range(k))


def decode_fragment_args(args: Dict[str, Any]) -> str:
    """Human-readable form of the fragment in a counterexample (for messages only)."""
    out = []
    i = 0
    while ("c%d" % i) in args:
        out.append(chr(args["c%d" % i]))
        i += 1
    return "".join(out)


# ------------------------------------------------------------------ M3: equality-scan containers
class LinearSet:
    """frozenset whose membership test is an equality scan (no hashing of a symbolic element)."""

    def __init__(self, items) -> None:
        self.items = tuple(items)

    def __contains__(self, x) -> bool:
        for it in self.items:
            if x == it:
                return True
        return False

    def __iter__(self):
        return iter(self.items)

    def __len__(self) -> int:
        return len(self.items)


class LinearDict(dict):
    """dict whose lookups by key are equality scans over the (concrete) keys."""

    def _find(self, key):
        for k in dict.keys(self):
            if key == k:
                return k
        return None

    def __getitem__(self, key):
        k = self._find(key)
        if k is None:
            raise KeyError("<key>")
        return dict.__getitem__(self, k)

    def get(self, key, default=None):
        k = self._find(key)
        return default if k is None else dict.__getitem__(self, k)

    def __contains__(self, key) -> bool:
        return self._find(key) is not None


class SymKeyDict(dict):
    """A JSON object whose member names may be symbolic strings: lookups are equality scans over (name, value) pairs.

    Used as a *document* in symbolic runs (a real dict would hash, i.e. realize, a symbolic name); replays use a real dict.
    Member order is the insertion order of the pairs, duplicates (equal names) are the caller's business.
    """

    def __init__(self, pairs) -> None:
        dict.__init__(self)
        self._pairs = list(pairs)

    def _find(self, key):
        for i, (k, _v) in enumerate(self._pairs):
            if k == key:
                return i
        return -1

    def __getitem__(self, key):
        i = self._find(key)
        if i < 0:
            raise KeyError("<name>")
        return self._pairs[i][1]

    def get(self, key, default=None):
        i = self._find(key)
        return default if i < 0 else self._pairs[i][1]

    def __contains__(self, key) -> bool:
        return self._find(key) >= 0

    def __iter__(self):
        return iter([k for k, _v in self._pairs])

    def keys(self):
        return [k for k, _v in self._pairs]

    def values(self):
        return [v for _k, v in self._pairs]

    def items(self):
        return list(self._pairs)

    def __len__(self) -> int:
        return len(self._pairs)

    def __bool__(self) -> bool:
        return len(self._pairs) > 0

    def __eq__(self, other):
        raise TypeError("SymKeyDict is a document, not a comparand")

    __hash__ = None  # type: ignore[assignment]


def sym_object(pairs):
    """A JSON object from (name, value) pairs: real dict in replays, SymKeyDict in symbolic runs (distinct names assumed)."""
    if symbolic_mode():
        return SymKeyDict(pairs)
    return dict(pairs)


class ModelEnv(JSONPathEnvironment):
    """The real environment and the real parser; only the function registry is an equality-scan dict (M3)."""

    def __init__(self) -> None:
        super().__init__()
        self.function_extensions = LinearDict(self.function_extensions)


_ENV: Optional[JSONPathEnvironment] = None


def symbolic_mode() -> bool:
    return (not inst.REPLAY) and "crosshair.core" in sys.modules


def model_env() -> JSONPathEnvironment:
    """Environment handed to the code under analysis (plain environment in replays)."""
    global _ENV
    if _ENV is None:
        _ENV = ModelEnv() if symbolic_mode() else JSONPathEnvironment()
    return _ENV


def install_text_models() -> None:
    """Harness-side stubs for string-processing C boundaries (symbolic runs only)."""
    from crosshair.libimpl import builtinslib

    from jsonpath_rfc9535 import lex
    from vtools import chpatches

    # M3: `peeked in ESCAPES`
    if not isinstance(lex.ESCAPES, LinearSet):
        lex.ESCAPES = LinearSet(sorted(lex.ESCAPES))
    # M6: repr() of a symbolic string inside error *messages* must not realize it
    def _placeholder_repr(self) -> str:
        return "'<symbolic text>'"

    todo = [builtinslib.AnySymbolicStr]
    while todo:
        cls = todo.pop()
        cls.__repr__ = _placeholder_repr  # type: ignore[assignment]
        todo.extend(cls.__subclasses__())
    chpatches.install(slices=True, ints=True)
    # M9/M4: << | & on symbolic ints as guarded arithmetic, str.encode as UTF-8 arithmetic, so that the *real*
    # _parse_hex_digits / _decode_hex_char run symbolically
    chpatches.install_bitwise()
    # M5: json.dumps(name, ensure_ascii=False) in serialize.canonical_string
    chpatches.install_json_dumps()
    chpatches.install_fstring_str()
    # number literals: float("<digits>") in IEEE-precise mode makes z3 answer unknown; the real-valued model is
    # exact for the digit strings the lexer passes (counterexamples are replayed on real floats anyway)
    chpatches.use_real_floats()


# ------------------------------------------------------------------ symbolic JSON values
INF = float("inf")
NAMES = ["a", "b", ""]  # member names only matter through equality; drawn by a symbolic selector (a symbolic str key
#                         stored in a real dict would be realized by hashing)
KIND_NAMES = ["null", "bool", "int", "float", "str", "list", "dict"]


def sym_scalar(name: str, kind=None, strlen: int = 2, intbound=None):
    """A symbolic JSON scalar; *kind* fixes the kind (0 null, 1 bool, 2 int, 3 float, 4 str) or None for a symbolic choice."""
    k = kind
    if k is None:
        k = sym_choice(name + "k", 5)
    if k == 0:
        return None
    if k == 1:
        return fresh(bool, name + "b")
    if k == 2:
        i = fresh(int, name + "i")
        if intbound is not None:
            assume(-intbound <= i <= intbound)
        return i
    if k == 3:
        f = fresh(float, name + "f")
        assume(f == f and f != INF and f != -INF)
        return f
    s = fresh(str, name + "s")
    assume(len(s) <= strlen)
    return s


def sym_choice(name: str, n: int) -> int:
    """A symbolic choice in range(n), without an ignored path for out-of-range values (value mod n)."""
    if n <= 1:
        return 0
    v = fresh(int, name)
    r = v % n
    for i in range(n - 1):
        if r == i:
            return i
    return n - 1


def sym_name(name: str, names=NAMES) -> str:
    return names[sym_choice(name + "n", len(names))]


def sym_json(name: str, depth: int, width: int, kind=None, leaf_kind=None, strlen: int = 1, intbound=1000, names=NAMES, distinct=True):
    """A symbolic JSON value as real Python objects with symbolic leaves.

    kind: 0..4 scalar kinds, 5 array, 6 object, None = symbolic choice (containers only while depth > 0).
    Arrays/objects have a symbolic number (0..width) of children; object member names are drawn from *names*
    (pairwise distinct when *distinct*: the j-th member takes the j-th of the names not used so far, rotated by a symbolic choice).
    leaf_kind fixes the kind of every scalar (e.g. 2 = int: structural selection does not inspect scalars).
    """
    k = kind
    if k is None and isinstance(leaf_kind, (list, tuple)):
        # scalars restricted to the listed kinds (e.g. [2, 4] = ints and strings)
        c = sym_choice(name + "K", len(leaf_kind) + (2 if depth > 0 else 0))
        k = leaf_kind[c] if c < len(leaf_kind) else (5 if c == len(leaf_kind) else 6)
    if k is None:
        if depth > 0:
            if leaf_kind is None:
                k = sym_choice(name + "K", 7)
            else:
                c = sym_choice(name + "K", 3)
                k = leaf_kind if c == 0 else (5 if c == 1 else 6)
        else:
            k = sym_choice(name + "K", 5) if leaf_kind is None else leaf_kind
    if k <= 4:
        return sym_scalar(name, k, strlen, intbound if k != 2 or leaf_kind is None or isinstance(leaf_kind, (list, tuple)) else None)
    n = sym_choice(name + "N", min(width, len(names) if k == 6 else width) + 1)
    kids = [sym_json("%s_%d" % (name, j), depth - 1, width, None, leaf_kind, strlen, intbound, names, distinct) for j in range(n)]
    if k == 5:
        return kids
    d = {}
    avail = list(names)
    for j, kid in enumerate(kids):
        if distinct:
            i = sym_choice("%s_%dn" % (name, j), len(avail))
            d[avail.pop(i)] = kid
        else:
            d[sym_name("%s_%d" % (name, j), names)] = kid
    return d
