"""Regenerate /verif/MANIFEST.json from the table below (python3 vtools/gen_manifest.py)."""
import json
import os

V = os.path.dirname(os.path.dirname(os.path.abspath(__file__)))
TECH_A = "bounded symbolic execution of the real Python code (CrossHair 0.0.110 + z3 5.1): inputs are solver variables, the property is a postcondition decided per path by z3, path tree exhausted within stated bounds; counterexamples replayed on the real code"
TECH_B = "; plus direct z3 obligations generated from the live source/AST (unbounded in the stated dimension)"

CLAIMED = {
    "C14": dict(
        text="Bounded symbolic model checking of purity and non-interference. Frame: every pool filter/function/descendant query applied twice to a symbolic document (child of every JSON kind): a deep snapshot taken before equals the document after, both applications equal the reference result and node values are the document's own objects. Histories: from a pre-state (two environments carrying different implementations of the same function name, pool queries already compiled on one of them) every sequence of 1 and 2 operations and every 'observe, any operation, observe again' sequence of 3 (all sequences of 3, and targeted 4, in the thorough tier) over {compile on A/B, apply a compiled query, env.find on A/B, module-level find, (re-)register a function on A/B, update the document in place} - the choices are symbolic selectors the executor forks on, document leaves are solver variables; after every step each observable result must equal the reference evaluation for (that text, that environment's own registry, the current document content), and after every history a fresh environment, a subclass and the module-level functions are untouched.",
        note="Trusted: CrossHair/z3, reference evaluator. Outside: longer histories; the regex module's process-wide pattern cache (foreign). The operation dimension is finite and fork-enumerated; only document leaves are solver-decided.",
        tech=TECH_A, design="§4 C14"),
    "C15": dict(
        text="Bounded symbolic model checking of entry-point agreement. Objects: a compiled query built from 18 (30 thorough) templates with symbolic integers/names is applied to a symbolic JSON value (depth<=2, leaves all ints or all strings, chosen symbolically) through find, apply, finditer and find_one: find == apply == list(finditer) == the reference evaluation, find_one is the head of that list or None. Texts: prefix + k symbolic characters + suffix (valid and invalid) is evaluated on two concrete documents containing every kind of value through all 11 public call paths (module-level find/finditer/find_one/compile().x, environment methods, compiled-query methods): identical node lists, find_one its head or None, or the same JSONPathError class from every path.",
        note="Trusted: CrossHair/z3, reference evaluator, stubs of C04. In symbolic runs the module-level functions are represented by the model environment's methods (the module-level names are aliases of a default environment's bound methods; the replay uses the real module-level functions).",
        tech=TECH_A, design="§4 C15"),
    "C16": dict(
        text="Bounded symbolic model checking of iterator independence on one thread; threads ARGUED, not explored (see level_note). Up to 3 live result iterators - same compiled query or different ones (filter with '$'-rooted sub-query, nested filter, descendant, function call), same or different documents with symbolic leaves, one shared environment - are advanced by a schedule that is a list of symbolic choices (which iterator steps, or one is abandoned), so every interleaving up to the bound is covered; each iterator must yield exactly the reference (solitary) sequence. Frame obligation: after any schedule every slot of every object reachable from the compiled queries and the environment is unchanged (identity).",
        note="Threads: OS-thread schedules are not expressible in this family. From the frame obligation (evaluation state lives only in generator frames; nothing reachable from shared objects is written) independence under CPython's sequentially consistent interleaving of bytecodes follows; that step is an argument, not an exploration. Bounds: schedules of <=4 steps (k=2) / 3 steps (k=3) quick; 7 / 6 thorough.",
        tech=TECH_A + "; schedules as symbolic choice lists", design="§4 C16, §5"),
    "C20": dict(
        text="IN-PROCESS PART (see level_note): bounded symbolic model checking of handle_path_command() driven with an argparse.Namespace: the query is prefix + k symbolic characters + suffix (valid queries and every JSONPathError class) given inline or through a query-file object; the document comes from a pool of 9 JSON byte strings (ASCII, non-ASCII, lone-surrogate escapes, deeper than the recursion limit, invalid JSON, empty, not UTF-8, UTF-16) in a binary stream; the output is a strictly encoding text stream (UTF-8 or ASCII) over a byte buffer; --pretty is a symbolic boolean. On every path: success => the bytes written parse to find(query, document).values() with the requested indentation, nothing on stderr, no SystemExit; library error or undecodable document => SystemExit non-zero, exactly one line on stderr, nothing written; no other exception escapes without --debug.",
        note="NOT decided: the process level (python -m, argparse.FileType, real stdin/stdout encodings, 'uncaught exception => traceback and exit status 1') is CPython/OS behaviour outside symbolic reach (DESIGN section 5). Trusted: CrossHair/z3, stubs of C04; in symbolic runs the output/stderr streams are Python-level stand-ins with the same strict-encoding behaviour, replays use io.TextIOWrapper over BytesIO.",
        tech=TECH_A, design="§4 C20, §5"),
    "C11": dict(
        text="REDUCED SCOPE (see level_note): bounded symbolic model checking of everything the repository's own code contributes to match()/search(): (i) map_re(p) for every pattern of up to 4 (5 thorough) symbolic characters over all scalar values equals the reference rewriting (unescaped '.' outside a class -> any-character-but-CR/LF group; escaped characters, escaped backslashes and class contents verbatim); (ii) Match.__call__/Search.__call__ with the two foreign engines cut by contract stubs, arguments symbolic over every JSON kind and nothing: non-string pattern/subject, invalid I-Regexp or an engine raising regex.error/TypeError all give False, nothing ever raises, match calls fullmatch(map_re(p), s) and search calls search(map_re(p), s) with identical flags; (iii) supplementary finite exhaustive concrete check on the real engine: the '.' replacement matches every single scalar value except LF/CR, classes stay literal for | & ~ - .",
        note="NOT decided: that the foreign engines (regex: C extension; iregexp_check: Rust) implement I-Regexp language semantics for the rewritten pattern - they cannot be executed symbolically or encoded within reach (DESIGN section 5); the claim covers the Python translation layer and the guard/dispatch contract only, which is all the code this repository contributes to the property. Trusted: CrossHair/z3, the stubs' contract (fullmatch = whole string, search = substring, TypeError on non-strings).",
        tech=TECH_A + "; engines cut by contract stubs; one finite concrete enumeration on the real engine", design="§4 C11, §5"),
    "C17": dict(
        text="Symbolic model checking of the nondeterministic mode over ALL outcomes of the random choices: random.shuffle/choice/sample as seen by segments.py/selectors.py are replaced by a tape whose every draw is a solver variable, so the executor explores every branch of the choice tree of the real traversal code. Validity: on every path the produced nodelist must belong to the set RFC 9535 permits for that query and document (independent reference enumeration: linear extensions of parent-before-child and array order, selector results per visited node contiguous, object members in any order per application). Exhaustiveness: after the tree is exhausted the produced set must equal the permitted set; a missing ordering is confirmed by concrete enumeration of every tape on the real code.",
        note="Trusted: CrossHair/z3, the ChoiceTape model of the random API (validated each run: all permutations and ordered selections reachable), the reference permitted-set enumeration (self-tested against the orderings listed in tests/test_nondeterminism.py). Bounds: concrete document shapes with <= 6 (8 thorough) nodes x 13 (15) queries; larger documents are outside the claim (the choice tree grows factorially).",
        tech=TECH_A + "; random outcomes as solver variables", design="§4 C17"),
    "C18": dict(
        text="Bounded symbolic model checking of the recursion bound: the configured limit L is an unbounded solver variable, the document a concrete spine of nesting depth d (arrays/objects/mixed, deep branch first/middle/last, scalar or empty container at the bottom) or a cyclic structure (self-loops, 2- and 3-cycles, diamond); the real descendant traversal runs in deterministic mode and in nondeterministic mode with every random draw a solver variable. For every L: d <= L => find('$..*') completes with the reference result; d > L => JSONPathRecursionError; cyclic data => JSONPathRecursionError within 10000 yielded nodes, never another exception.",
        note="Trusted: CrossHair/z3, ChoiceTape (validated), reference evaluator. Bounds: d <= 6 (9 thorough) deterministic, d <= 3 (4) nondeterministic; cyclic: L <= 10 (16) deterministic, <= 3 (4) nondeterministic. NOT claimed: large configured limits against CPython's own recursion limit (the deterministic visitor is a recursive generator), unbounded memory growth.",
        tech=TECH_A + "; random outcomes as solver variables", design="§4 C18"),
    "C08": dict(
        text="Bounded symbolic model checking of locations and normalized paths: (a) for index/slice/name templates with every integer a solver variable (negative indices, reverse slices) on symbolic arrays each node's location is walked from the root and must reach the identical object, with non-negative indices (also asserted inside every C01/C02/C10 obligation); (b) JSONPathNode.path() for symbolic locations (names of up to 2 symbolic characters over all scalar values - quotes, backslash, every control character, DEL, non-BMP, empty - and symbolic non-negative ints, up to 3 keys) equals the RFC 9535 section 2.7 normalized path of the reference; (c) the normalized path of a member with a symbolic name is compiled by the real parser and evaluated on an object holding that member and near-miss members: exactly that node comes back, and paths of array nodes lead back to the node; (d) values()/paths()/items() agree with the nodes.",
        note="Trusted: CrossHair/z3, M5 json.dumps(str, ensure_ascii=False) model (validated for every scalar value each run), reference normalized path (self-tested against the RFC table 20 examples), equality-scan objects for symbolic member names, guarded bitwise rewrites. Outside: names longer than 2 (3 thorough) characters.",
        tech=TECH_A, design="§4 C08"),
    "C10": dict(
        text="Bounded symbolic model checking of the function bodies and call conversions: Length/Count/Value.__call__ on symbolic arguments of every kind (strings over all code points incl. non-BMP, containers, scalars, nothing; node lists of 0-3 nodes); probe functions with a declared ValueType / LogicalType / NodesType parameter registered on a real environment record what they receive while 33 filter queries (literal, '@' on container and scalar children, '$', singular hitting/missing, non-singular with 0/1/2 results, nested calls, comparisons, negation, parenthesised) are compiled and evaluated by the real code on symbolic children of every JSON kind; the recorded arguments must equal, call by call, what the reference evaluator passes under the RFC conversions, and the selection must equal the reference result.",
        note="Trusted: CrossHair/z3, reference evaluator with the same probe signatures, floats as reals. Outside: probe functions with more than one parameter (arity and typing are C05's subject).",
        tech=TECH_A, design="§4 C10"),
    "C01": dict(
        text="Bounded symbolic model checking of structural selection: a filter-free query is built through the public constructors from 30 templates (every selector kind, multi-selector segments with duplicates, child and descendant segments, up to 3 segments) with every index/slice integer a solver variable over +/-(2^53-1) (slice parts present or omitted) and names symbolic choices; the JSON value is a symbolic tree (symbolic shape choices over arrays/objects/scalars, symbolic member names and order, symbolic leaves); the real finditer/resolve code runs on it and the yielded (location, value) sequence must equal the RFC 9535 reference evaluation - same nodes, same order, duplicates kept, identical objects, every location leading from the root to the value. Spelling obligations (any single-character variation of the filter-free seeds that is valid parses to the RFC reading) complete the parse half.",
        note="Trusted: CrossHair/z3, the reference evaluator vtools/ref/evalref.py (self-tested against every example in the repository's tests), M1/M2 slice models. Bounds: documents depth<=2 width<=2 (width 3 for one-level templates), names from a 2-3 name alphabet, int leaves; templates with a slice in a multi-segment/descendant position run in the thorough tier only.",
        tech=TECH_A, design="§4 C01"),
    "C02": dict(
        text="Bounded symbolic model checking of filter selection: a pool of 61 filter queries (existence tests on '@', '@.a', '$'-rooted queries at nesting depth 1 and 2, '!', '&&', '||', every parenthesisation of three operands, comparisons and function calls as atoms, filters beside other selectors and in descendant segments) is compiled by the real parser and evaluated by the real code on symbolic JSON values whose child under test ranges over every JSON kind (null, booleans, unbounded ints, real-valued floats, strings, arrays/objects of symbolic scalars - so 0, false, \"\", [] and {} are in the domain), on arrays/objects of up to 3 symbolic children (iteration and order) and on scalar roots; the selected (location, value) sequence must equal the reference evaluation of the RFC reading of the same text. Accept-mode hole obligations assert the RFC grouping of the parsed expression for single-character variations of the logic seeds.",
        note="Trusted: CrossHair/z3, the reference parser/evaluator (self-tested), floats as reals, the foreign regex engine modelled by Python's re for the two dot-free patterns in the pool. Outside: filters not in the pool, deeper/wider children.",
        tech=TECH_A, design="§4 C02"),
    "C12": dict(
        text="Bounded symbolic model checking of compile -> str -> compile -> str on prefix + k symbolic characters + suffix, on every path where the RFC reference finds the query valid: str(compiled) must be derivable and valid for the reference recogniser, its RFC reading and its recompiled normal form must equal the original's (same names, integers, literal values, selectors and the same grouping of !, &&, ||, comparisons - hence the same nodes on every value), and serialising again must give the identical text. Holes cover every position of a corpus containing every nesting of !, &&, ||, comparisons, parentheses, calls and embedded filters, the terminal classes of names and string literals over all characters, and numeric spellings.",
        note="Trusted: CrossHair/z3, the reference model, M5 json.dumps(str, ensure_ascii=False) as per-character escaping (validated for all scalar values each run), f-string formatting of objects routed through the symbolic-aware str(); float(<numeral>) is concrete per path in this check (digits fork-enumerated) because double rounding is the subject. 'Same node selection' is derived from normal-form equality (evaluation reads only those fields; omitted slice step = 1 is C07's obligation, numeric kind-insensitivity C06's). Outside: literals beyond the exactly representable range.",
        tech=TECH_A, design="§4 C12"),
    "C05": dict(
        text="Bounded symbolic model checking of the validity rules. Typing: compile() on an environment with user-registered functions is compared with the RFC 9535 section 2.4.3 judgement of the reference model for all 39 signatures over {Value,Logical,Nodes}^n -> type (n<=2), 10 syntactic positions, 10 argument-expression kinds per parameter and arity off by one; these finite dimensions are symbolic choice variables the executor forks on (fork-enumerated, exhaustively), while function names in call position are symbolic characters decided by the solver against the registry. Integer range: environment bounds lo<=hi and every index/slice component are unbounded solver variables for the constructors (also proved for all integers by z3 from the source), and index/slice literal spellings around +/-(2^53-1) have symbolic trailing digits end-to-end through compile().",
        note="Trusted: CrossHair/z3, the reference typing rules in vtools/ref/grammar.py (self-tested against tests/test_ietf_well_typedness.py with its mock signatures), stubs of C04. Outside: functions with more than 2 parameters; for n=2 the quick tier varies one argument at a time (thorough: all pairs).",
        tech=TECH_A + TECH_B, design="§4 C05"),
    "C09": dict(
        text="Bounded symbolic model checking of string-literal decoding plus unbounded z3 kernel obligations. The literal body is up to 2 (3 thorough) symbolic characters over all scalar values inside concrete context - both quote styles, after a backslash, inside \\uXXXX and surrogate-pair escapes with 2 (4 thorough) symbolic hex digits, truncated escapes - in name-selector and comparison position; the real lexer and the real decoding code (including the real bitwise kernels, run through guarded arithmetic rewrites) execute symbolically; a literal is rejected iff the RFC rule does not derive it, otherwise find() on an object with that member (resp. a child string) selects exactly the RFC decoding. z3 proves from the source: _parse_hex_digits for all 4-tuples of code points, the surrogate predicates and _string_from_codepoint for all ints, the surrogate-pair combination for all pairs.",
        note="Trusted: CrossHair/z3; guarded rewrites of << | & (each guarded by a solver-checked side condition) and the arithmetic UTF-8 model of str.encode (validated against the real encoder for every scalar value each run); the reference decoder (self-tested against json.loads). Outside: more symbolic characters per literal than the bound.",
        tech=TECH_A + TECH_B, design="§4 C09"),
    "C03": dict(
        text="Bounded differential symbolic model checking of acceptance: on every path where the RFC 9535 reference recogniser derives prefix + k symbolic characters + suffix and finds it valid, the real compile() must return a query whose normal form (segments, selectors, decoded names, integers, literal values, operator grouping) equals the RFC reading. Instances: every position of the seed corpus with any character (k=1; 2 thorough) and with symbolic blank characters (every optional-S position), plus terminal-class instances over whole ABNF classes (shorthand names incl. non-BMP, both quote styles, every escape form incl. \\uXXXX and surrogate pairs with symbolic hex digits, int/frac/exp digits). In addition z3 decides, from the lexer's live compiled patterns, that every string of any length of member-name-shorthand, function-name, blank runs, int and number is matched by the corresponding token pattern.",
        note="Trusted: as C04, plus the regex-to-z3 translator (stdlib sre parse tree -> z3 regex; z3's character sort is folded above U+2FFFF, exactness of the fold is checked on the extracted patterns; a vacuity twin must be refuted each run). The real hex/surrogate kernels run symbolically through guarded arithmetic rewrites of << | & and an arithmetic UTF-8 model of str.encode. Outside: valid queries further than k characters from every seed.",
        tech=TECH_A + TECH_B, design="§4 C03"),
    "C13": dict(
        text="Bounded symbolic model checking of totality: compile() is executed on prefix + k symbolic characters + suffix for holes at every position of the seed corpus, at the lax-parsing contexts (k=2; 3 thorough), at numeric overflow edges, inside queries nested up to 32 deep and inside structured queries up to 1024 characters long; find() is executed for a pool of 25 filter/function queries on symbolic documents whose root and children range over every JSON kind. Postcondition on every path: the call returns or raises a JSONPathError whose str() is produced. No oracle is involved, so any escaping exception is a replayed, concrete finding.",
        note="Trusted: CrossHair/z3, the stubs of C04. The foreign regex engines behind match/search run concretely on realized arguments. Outside: query strings not within k characters of a seed; recursion limits (C18).",
        tech=TECH_A, design="§4 C13"),
    "C19": dict(
        text="Bounded symbolic model checking of error positions: Token.position()/JSONPathError.__str__ are executed for every text of <=4 (5 thorough) characters over all scalar values and every offset against the offset's real line/column; compile() is executed with symbolic characters at every position of valid seeds and with symbolic blank characters (SP/HT/LF/CR) at every position of 26 erroneous, partly multi-line seeds, asserting whenever it raises that the error has a token, 0 <= offset <= len(text), the token's text is the query and str(error) ends with that offset's ', line L, column C'.",
        note="Trusted: CrossHair/z3, stubs of C04 (the repr placeholder affects only the message body, not the position suffix, which is computed by the real code). Convention assumed: lines are separated by LF, 1-based line, 0-based column (fixed by tests/test_errors.py).",
        tech=TECH_A, design="§4 C19"),
    "C04": dict(
        text="Bounded differential symbolic model checking of the lexer+parser against an independent recogniser of the RFC 9535 ABNF: a hole of k symbolic characters (each any Unicode scalar value) is placed at every character position of a corpus of valid queries covering every production (k=1; k=2 at every position in the thorough tier) and at the contexts where lax parsing is typical (k=2; k=3 thorough); on every path where the recogniser says 'not derivable/invalid' the real compile() must raise JSONPathError. Each path stands for a whole class of strings, so this decides rejection for every single-edit (and many double-edit) neighbour of the corpus, which examples cannot.",
        note="Trusted: CrossHair str/regex models, z3, the reference recogniser vtools/ref/grammar.py (self-tested each run against every valid/invalid verdict recorded in the repository's tests), harness-side stubs listed in evidence (equality-scan ESCAPES/function registry, repr placeholder, symbolic int(), real-valued float, arithmetic hex kernels proved in C09). Outside: strings more than k adjacent characters away from every seed; the RFC-disputed blank space inside singular-query brackets of a comparand is don't-care.",
        tech=TECH_A, design="§4 C04"),
    "C06": dict(
        text="Bounded symbolic model checking of the comparison table: both comparands are solver variables of every JSON kind (all 8x8 kind pairs incl. 'nothing'; unbounded ints, real-valued floats, strings over all code points, arrays/objects of symbolic scalars, depth-2 nests), the real _compare/_eq/_lt and the real find() path (literal, relative/absolute singular query, value()/length() results, missing members) are executed over all paths for all six operators and compared with a reference written from RFC 9535 section 2.3.5.2.2.",
        note="Trusted: CrossHair value models (floats modelled as reals, exact for ==/< because CPython compares int/float by exact value), z3, the reference table (self-tested against the expectations in tests/test_compare.py and tests/test_ietf_comparison.py). Bounds: strings <=2 (3 thorough) chars, containers <=2 entries (1 when both sides are containers), element ints within +/-1000, object member names drawn from a 3-name alphabet.",
        tech=TECH_A, design="§4 C06"),
    "C07": dict(
        text="Bounded symbolic model checking: for arrays up to the stated length every integer parameter (index, start, end, step, each present or omitted, any value in +/-(2^53-1)) is a z3 variable and the real selector code is executed over all paths and compared with the RFC 9535 procedure; bounds arithmetic and range guards are additionally proved for every array length and every integer by z3 from the source. Right level: the property is pure integer/array arithmetic, exactly where a solver covers what sampling cannot.",
        note="Trusted: CrossHair's int/list models, z3, the Python-level model of slice.indices/list subscript (validated against the real builtins on a grid each run), the RFC reference procedure in vtools/ref/slices.py (self-tested against the RFC table and Python slicing). Array length <= 4 (quick) / 6 (thorough) for the executed part.",
        tech=TECH_A + TECH_B, design="§4 C07"),
}

NOT_YET = "check not built yet in this round (see DESIGN.md §4 for the planned solver-based design)"
ALL = ["C%02d" % i for i in range(1, 21)]


def main():
    checks = []
    for pid in ALL:
        if pid not in CLAIMED:
            continue
        c = CLAIMED[pid]
        checks.append({
            "property_id": pid,
            "quick_cmd": "./check %s --tier quick" % pid,
            "thorough_cmd": "./check %s --tier thorough" % pid,
            "evidence_file": "/verif/evidence/%s.json" % pid,
            "replay_cmd_template": "./check %s --replay {path}" % pid,
            "engine": "crosshair+z3",
            "level_claimed": {"category": "model_checking", "text": c["text"], "design_ref": c["design"]},
            "level_note": c["note"],
            "technique": c["tech"],
        })
    na = []
    reasons = NA_REASONS
    for pid in ALL:
        if pid not in CLAIMED:
            na.append({"property_id": pid, "reason": reasons.get(pid, NOT_YET)})
    m = {
        "version": 1,
        "setup_cmd": "sh vtools/bootstrap.sh",
        "hooks": {
            "guard": "JSONPATH_RFC9535_VERIF",
            "enable": "no source hooks are needed: every model/stub is installed on the harness side (CrossHair patch registry, subclasses handed to the code); checks export JSONPATH_RFC9535_VERIF=1 for uniformity",
            "baseline_off_cmd": "cd /repo && /venv/bin/python -m pytest -ra -q -p no:cacheprovider --timeout=900 --continue-on-collection-errors",
            "source_commits": [],
            "add_only": True,
        },
        "engines": [
            {"name": "crosshair+z3", "path": "/verif/vtools", "serves_properties": sorted(CLAIMED), "kind_free_text": "symbolic execution of the unmodified /repo modules through CrossHair's Python API (vtools/chdrive.py) plus z3 obligations generated from source (vtools/smt)"},
        ],
        "checks": checks,
        "not_applicable": na,
        "notes": "Exit codes: 0 held / known findings only; 1 replayed unlisted violation; 2 harness error. Known and fixed findings: /verif/known_findings.json.",
    }
    with open(os.path.join(V, "MANIFEST.json"), "w") as fd:
        json.dump(m, fd, indent=1)
    print("claimed:", sorted(CLAIMED), "n/a:", [x["property_id"] for x in na])


NA_REASONS = {}  # every property is claimed; C11, C16 and C20 with the reduced scope stated in their level text / note

if __name__ == "__main__":
    main()
