#!/bin/sh
# development aid: confirm a seeded change (from /tmp/seed/out/<ID>) and run the property's check against it.
# usage: vtools/dev_seed_eval.sh <ID> [tier] [srcdir]
id="$1"; tier="${2:-quick}"; src="${3:-/tmp/seed/out/$id}"
cd /repo && git diff --quiet || { echo "repo dirty"; exit 9; }
echo "== demo on unchanged tree"; LIB=/repo /venv/bin/python "$src/demo.py" >/tmp/seed_demo0.txt 2>&1; echo "demo rc(unchanged)=$?"
git apply "$src/patch.diff" || { echo "patch does not apply"; exit 9; }
echo "== baseline with change"; /verif/vtools/dev_baseline.sh
echo "== demo with change"; LIB=/repo /venv/bin/python "$src/demo.py" >/tmp/seed_demo1.txt 2>&1; echo "demo rc(changed)=$?"; tail -3 /tmp/seed_demo1.txt | cut -c1-300
echo "== check $id ($tier)"; cd /verif && ./check "$id" --tier "$tier" --no-evidence 2>&1 | grep -E "SUMMARY|VIOLATION|HARNESS|UNDECIDED" | head -6 | cut -c1-400
git -C /repo checkout -- . ; git -C /repo status --short
