#!/bin/sh
# development aid: temporarily undo one fix commit in /repo's working tree, run a command, restore.
# usage: vtools/dev_revert.sh <sha> -- cmd...
sha="$1"; shift; shift
cd /repo && git diff --quiet || { echo "repo dirty"; exit 9; }
git show "$sha" | git apply -R || { echo "cannot revert"; exit 9; }
cd /verif && "$@"; rc=$?
git -C /repo checkout -- . ; git -C /repo status --short
exit $rc
