#!/bin/sh
# Idempotent: build the /verif/.venv overlay (DESIGN F1) from the offline wheelhouse.
set -e
V="$(cd "$(dirname "$0")/.." && pwd)"
if [ -x "$V/.venv/bin/python" ] && "$V/.venv/bin/python" -c "import crosshair, z3, jsonpath_rfc9535, regex, iregexp_check" 2>/dev/null; then
  exit 0
fi
exec 9>"$V/.venv.lock"
flock 9
if [ -x "$V/.venv/bin/python" ] && "$V/.venv/bin/python" -c "import crosshair, z3, jsonpath_rfc9535, regex, iregexp_check" 2>/dev/null; then
  exit 0
fi
rm -rf "$V/.venv"
/venv/bin/python -m venv "$V/.venv"
SP="$("$V/.venv/bin/python" -c 'import sysconfig; print(sysconfig.get_paths()["purelib"])')"
printf "import site; site.addsitedir('/venv/lib/python3.12/site-packages')\n" > "$SP/_overlay.pth"
PIP_NO_INDEX=1 "$V/.venv/bin/pip" install -q --no-index --find-links /opt/veriftools/wheels crosshair-tool >&2
"$V/.venv/bin/python" -c "import crosshair, z3, jsonpath_rfc9535, regex, iregexp_check"
