"""Engine B1 obligations: the lexer's live regular expressions against the RFC 9535 lexical rules, any string length."""
from __future__ import annotations

from typing import Any, Callable, Dict, List, Optional, Tuple

import z3

from vtools.smt import regex2z3 as R


def _ctx_check(q: str) -> Optional[str]:
    """Run the in-context differential check (real compile() vs reference) on a concrete query; None = agrees."""
    from vtools import holes, inst

    saved = dict(inst.P)
    inst.P.clear()
    inst.P.update({"prefix": q, "suffix": "", "k": 0, "mode": "both"})
    try:
        r = holes.h_hole()
    except inst.PreconditionNotMet:
        r = True
    finally:
        inst.P.clear()
        inst.P.update(saved)
    return None if r is True else str(r)


def _decide(name: str, a, b, ctx: Tuple[str, str], max_candidates: int = 8) -> Dict[str, Any]:
    """L(a) subset of L(b)?  Every regex-level witness is replayed in context; only a reproducing one is a violation."""
    queries = []
    excluded: List[str] = []
    tot = 0.0
    for _round in range(max_candidates + 1):
        def extra(s, ex=tuple(excluded)):
            # query strings are sequences of Unicode scalar values: no lone surrogates
            scalar = z3.InRe(s, z3.Star(R.union(R.rng(0, 0xD7FF), R.rng(0xE000, R.UNI_MAX))))
            return z3.And([scalar] + [s != z3.StringVal(e) for e in ex])

        try:
            res, w, dt = R.included(a, b, extra=extra)
        except R.Unsupported as e:
            return {"status": "unknown", "notes": ["regex not translatable: %s" % e], "queries": queries}
        tot += dt
        queries.append({"claim": name + (" (excluding %d context-filtered witnesses)" % len(excluded) if excluded else ""), "result": res, "witness": w, "s": round(dt, 4)})
        if res == "unsat":
            return {"status": "confirmed", "queries": queries, "solver_checks": len(queries), "solver_s": round(tot, 4), "paths": len(queries), "confirmed_paths": 1,
                    "notes": ["regex-level witnesses that the parser handles correctly in context: %r" % excluded] if excluded else []}
        if res != "sat":
            return {"status": "unknown", "queries": queries}
        if any(0xD800 <= ord(c) <= 0xDFFF for c in w):
            excluded.append(w)
            continue
        q = ctx[0] + w + ctx[1]
        bad = _ctx_check(q)
        if bad is not None:
            return {"status": "refuted", "queries": queries, "failure": "%s: witness %r; in context: %s" % (name, w, bad),
                    "replay_module": "vtools.holes", "replay_func": "h_hole", "replay_args": {},
                    "replay_params": {"prefix": q, "suffix": "", "k": 0, "mode": "both"}}
        excluded.append(w)
    return {"status": "unknown", "queries": queries, "notes": ["more than %d regex-level witnesses, all handled correctly in context: %r" % (max_candidates, excluded)]}


def _no_leading_zero_int():
    # what parse_bracketed_selection / parse_slice refuse after RE_INDEX matched: "0" digit+ and "-0" digit*
    d = R.rfc_digit()
    bad = R.union(R.concat(R.lit("0"), z3.Plus(d)), R.concat(R.lit("-0"), z3.Star(d)))
    return z3.Complement(bad)


def _number_token_filter():
    # what the parser refuses after RE_FLOAT/RE_INT matched: float() fails on ':' ; _has_leading_zero
    d = R.rfc_digit()
    anyc = R.anychar()
    has_colon = R.concat(z3.Star(anyc), R.lit(":"), z3.Star(anyc))
    lead0 = R.concat(z3.Option(R.lit("-")), R.lit("0"), z3.Plus(d), z3.Star(anyc))
    return z3.Complement(R.union(has_colon, lead0))


def obligations_rfc_in_impl():
    """C03 direction: everything the RFC rule derives is matched by the lexer's pattern."""
    from jsonpath_rfc9535 import lex

    P = R.from_pattern
    return [
        ("b1.shorthand_in_RE_PROPERTY", lambda: _decide("L(member-name-shorthand) <= L(RE_PROPERTY)", R.rfc_member_name_shorthand(), P(lex.RE_PROPERTY), ("$.", ""))),
        ("b1.funcname_in_RE_FUNCTION_NAME", lambda: _decide("L(function-name) <= L(RE_FUNCTION_NAME)", R.rfc_function_name(), P(lex.RE_FUNCTION_NAME), ("$[?", "(@.a)]"))),
        ("b1.blank_in_RE_WHITESPACE", lambda: _decide("L(1*B) <= L(RE_WHITESPACE)", R.rfc_blank_run(), P(lex.RE_WHITESPACE), ("$", ".a"))),
        ("b1.int_in_RE_INDEX", lambda: _decide("L(int) <= L(RE_INDEX)", R.rfc_int(), P(lex.RE_INDEX), ("$[", "]"))),
        ("b1.number_in_RE_FLOAT_or_RE_INT", lambda: _decide("L(number) <= L(RE_FLOAT) u L(RE_INT)", R.rfc_number(), z3.Union(P(lex.RE_FLOAT), P(lex.RE_INT)), ("$[?@.a==", "]"))),
    ]


def obligations_impl_in_rfc():
    """C04 direction: everything the lexer's pattern matches (and the parser does not refuse) is derivable."""
    from jsonpath_rfc9535 import lex

    P = R.from_pattern
    return [
        ("b1.RE_PROPERTY_in_shorthand", lambda: _decide("L(RE_PROPERTY) <= L(member-name-shorthand)", P(lex.RE_PROPERTY), R.rfc_member_name_shorthand(), ("$.", ""))),
        ("b1.RE_FUNCTION_NAME_in_funcname", lambda: _decide("L(RE_FUNCTION_NAME) <= L(function-name)", P(lex.RE_FUNCTION_NAME), R.rfc_function_name(), ("$[?", "(@.a)]"))),
        ("b1.RE_WHITESPACE_in_blank", lambda: _decide("L(RE_WHITESPACE) <= L(1*B)", P(lex.RE_WHITESPACE), R.rfc_blank_run(), ("$", ".a"))),
        ("b1.RE_INDEX_in_int", lambda: _decide("L(RE_INDEX) n no-leading-zero <= L(int)", z3.Intersect(P(lex.RE_INDEX), _no_leading_zero_int()), R.rfc_int(), ("$[", "]"))),
        ("b1.RE_FLOAT_RE_INT_in_number", lambda: _decide("(L(RE_FLOAT) u L(RE_INT)) n parser-filter <= L(number)", z3.Intersect(z3.Union(P(lex.RE_FLOAT), P(lex.RE_INT)), _number_token_filter()), R.rfc_number(), ("$[?@.a==", "]"))),
    ]


def vacuity_twin() -> Dict[str, Any]:
    """Must come back refuted-at-regex-level: the RFC shorthand language is not included in the function-name language."""
    res, w, dt = R.included(R.rfc_member_name_shorthand(), R.rfc_function_name())
    return {"status": "refuted" if res == "sat" else "confirmed", "queries": [{"claim": "twin: L(shorthand) <= L(function-name) must fail", "result": res, "witness": w}], "solver_checks": 1, "solver_s": dt}


def run(which: str, name: str) -> Dict[str, Any]:
    table = dict(obligations_rfc_in_impl() if which == "rfc_in_impl" else obligations_impl_in_rfc())
    return table[name]()
