"""Python-level models of C boundaries (DESIGN §3.2) and their validators.

Each model replaces, *on the harness side only*, a C-implemented operation that would force the
symbolic executor to realize symbolic values.  Replays never use them.
Every model has a validator that compares it with the real builtin on a finite grid.
"""
from __future__ import annotations

import itertools
import json
from typing import Any, List


# --------------------------------------------------------------------------- M1
def slice_indices(self: slice, length: int):
    """PySlice_Unpack + PySlice_AdjustIndices (CPython Objects/sliceobject.c).

    Written without closures so that Engine B2 can also translate it to z3 from its source.
    """
    step = 1 if self.step is None else self.step
    if step == 0:
        raise ValueError("slice step cannot be zero")
    start = self.start
    stop = self.stop
    if step < 0:
        if start is None:
            start = length - 1
        elif start < 0:
            start = start + length
            if start < 0:
                start = -1
        elif start >= length:
            start = length - 1
        if stop is None:
            stop = -1
        elif stop < 0:
            stop = stop + length
            if stop < 0:
                stop = -1
        elif stop >= length:
            stop = length - 1
    else:
        if start is None:
            start = 0
        elif start < 0:
            start = start + length
            if start < 0:
                start = 0
        elif start >= length:
            start = length
        if stop is None:
            stop = length
        elif stop < 0:
            stop = stop + length
            if stop < 0:
                stop = 0
        elif stop >= length:
            stop = length
    return (start, stop, step)


# --------------------------------------------------------------------------- M2
class ModelList(list):
    """``list`` whose subscript is evaluated in Python (int and slice keys)."""

    def __getitem__(self, key):  # type: ignore[override]
        n = list.__len__(self)
        if isinstance(key, slice):
            start, stop, step = slice_indices(key, n)
            out = []
            i = start
            while (i < stop) if step > 0 else (i > stop):
                out.append(self._at(i))
                i += step
            return out
        if key < -n or key >= n:
            raise IndexError("list index out of range")
        return self._at(key if key >= 0 else key + n)

    def _at(self, i):
        for k in range(list.__len__(self)):
            if i == k:
                return list.__getitem__(self, k)
        raise AssertionError("model: index outside list")


def model_range_list(start: int, stop: int, step: int) -> List[int]:
    """list(range(start, stop, step)) evaluated in Python."""
    out = []
    i = start
    while (i < stop) if step > 0 else (i > stop):
        out.append(i)
        i += step
    return out


def validate_slice_models() -> int:
    n_cases = 0
    vals = [None] + list(range(-9, 10))
    for n in range(0, 8):
        base = list(range(100, 100 + n))
        ml = ModelList(base)
        for a, b, c in itertools.product(vals, vals, vals):
            s = slice(a, b, c)
            if c == 0:
                try:
                    slice_indices(s, n)
                except ValueError:
                    pass
                else:
                    raise AssertionError("M1 step 0")
                continue
            assert slice_indices(s, n) == s.indices(n), (a, b, c, n)
            assert ml[s] == base[s], (a, b, c, n)
            assert model_range_list(*s.indices(n)) == list(range(*s.indices(n)))
            n_cases += 1
        for i in range(-10, 11):
            try:
                exp = base[i]
            except IndexError:
                exp = IndexError
            try:
                got = ml[i]
            except IndexError:
                got = IndexError
            assert got == exp
            n_cases += 1
    # extreme values
    big = 2**53 - 1
    for n in (0, 1, 5):
        for a, b, c in itertools.product([None, big, -big, 0], repeat=3):
            if c == 0:
                continue
            assert slice_indices(slice(a, b, c), n) == slice(a, b, c).indices(n)
            n_cases += 1
    return n_cases


# --------------------------------------------------------------------------- M5
_JSON_SHORT = {0x22: '\\"', 0x5C: "\\\\", 0x0A: "\\n", 0x0D: "\\r", 0x09: "\\t", 0x08: "\\b", 0x0C: "\\f"}
_HEX = "0123456789abcdef"


def _hexdigit(v: int) -> str:
    for k in range(16):  # explicit forks instead of indexing a str with a symbolic int
        if v == k:
            return _HEX[k]
    raise AssertionError("model: hex digit out of range")


def json_escape(s: str) -> str:
    """json.dumps(s, ensure_ascii=False): CPython's encode_basestring, per character."""
    out = ['"']
    for ch in s:
        o = ord(ch)
        if o == 0x22:
            out.append('\\"')
        elif o == 0x5C:
            out.append("\\\\")
        elif o == 0x0A:
            out.append("\\n")
        elif o == 0x0D:
            out.append("\\r")
        elif o == 0x09:
            out.append("\\t")
        elif o == 0x08:
            out.append("\\b")
        elif o == 0x0C:
            out.append("\\f")
        elif o < 0x20:
            out.append("\\u00" + ("0" if o < 16 else "1") + _hexdigit(o % 16))
        else:
            out.append(ch)
    out.append('"')
    return "".join(out)


def validate_json_escape() -> int:
    n = 0
    for cp in range(0x110000):
        if 0xD800 <= cp <= 0xDFFF:
            continue
        c = chr(cp)
        assert json_escape(c) == json.dumps(c, ensure_ascii=False), cp
        n += 1
    special = [chr(c) for c in range(0x20)] + ['"', "\\", "'", "/", "a", "\x7f", " ", "\U0001F600"]
    for a, b in itertools.product(special, special):
        assert json_escape(a + b) == json.dumps(a + b, ensure_ascii=False)
        n += 1
    return n
