#!/bin/sh
# development aid: run the repository's pinned baseline (expects 352 passed, 3 collection errors from the absent submodules)
cd /repo && /venv/bin/python -m pytest -q -p no:cacheprovider --timeout=900 --continue-on-collection-errors 2>&1 | tail -1
