"""./check <ID> --tier quick|thorough  — expand, run, replay, classify, write evidence (DESIGN §3.1)."""
from __future__ import annotations

import argparse
import concurrent.futures
import importlib
import json
import os
import subprocess
import sys
import time
from typing import Any, Dict, List

VERIF = os.path.dirname(os.path.dirname(os.path.abspath(__file__)))
PY = os.path.join(VERIF, ".venv", "bin", "python")
REPO = os.environ.get("VERIF_REPO", "/repo")  # development aid: point the checks at a scratch worktree; registered commands use /repo
HOOK_ENV = "JSONPATH_RFC9535_VERIF"


def _env():
    env = dict(os.environ)
    env["PYTHONPATH"] = REPO + os.pathsep + VERIF
    env["PYTHONHASHSEED"] = "0"
    env["PYTHONDONTWRITEBYTECODE"] = "1"
    env[HOOK_ENV] = "1"
    return env


def run_worker(job: Dict[str, Any]) -> Dict[str, Any]:
    hard = float(job.get("timeout", 60)) * 2.5 + 60
    t0 = time.time()
    try:
        p = subprocess.run(
            [PY, "-m", "vtools.worker"],
            input=json.dumps(job),
            capture_output=True,
            text=True,
            timeout=hard,
            cwd=VERIF,
            env=_env(),
        )
    except subprocess.TimeoutExpired:
        return {"status": "unknown", "notes": ["hard wall timeout %.0fs" % hard], "paths": 0, "wall_s": time.time() - t0}
    out = p.stdout
    k = out.rfind("@@RESULT@@")
    if k < 0:
        return {"status": "error", "error": "worker produced no result (rc=%s)" % p.returncode, "traceback": (p.stderr or "")[-3000:]}
    res = json.loads(out[k + len("@@RESULT@@"):])
    if p.stderr and res.get("status") == "error":
        res["stderr"] = p.stderr[-2000:]
    return res


def run_replay(rec_path: str) -> Dict[str, Any]:
    p = subprocess.run([PY, "-m", "vtools.replay", rec_path], capture_output=True, text=True, cwd=VERIF, env=_env(), timeout=600)
    try:
        out = json.loads(p.stdout.strip().splitlines()[-1])
    except Exception:  # noqa: BLE001
        out = {"outcome": "error", "detail": (p.stderr or p.stdout)[-2000:]}
    return out


def load_findings() -> List[Dict[str, Any]]:
    try:
        with open(os.path.join(VERIF, "known_findings.json")) as fd:
            return json.load(fd).get("findings", [])
    except FileNotFoundError:
        return []


def main(argv=None) -> int:
    ap = argparse.ArgumentParser()
    ap.add_argument("prop")
    ap.add_argument("--tier", default=os.environ.get("VERIF_TIER", "quick"), choices=["quick", "thorough"])
    ap.add_argument("--replay", default=None)
    ap.add_argument("--jobs", type=int, default=int(os.environ.get("VERIF_JOBS", "16")))
    ap.add_argument("--only", default=None, help="substring filter on obligation ids (development)")
    ap.add_argument("--no-evidence", action="store_true")
    ap.add_argument("-v", "--verbose", action="store_true")
    ap.add_argument("--keep-going", action="store_true", help="run every obligation even after a replayed violation")
    args = ap.parse_args(argv)
    pid = args.prop.upper()
    seed = int(os.environ.get("VERIF_SEED", "0") or 0)

    if args.replay:
        out = run_replay(args.replay)
        print(json.dumps(out))
        return 1 if out["outcome"] == "reproduced" else 0

    t_start = time.time()
    sys.path.insert(0, REPO)
    sys.path.insert(0, VERIF)
    os.environ[HOOK_ENV] = "1"
    mod = importlib.import_module("vtools.props." + pid.lower())

    # ---- 1. self-tests: models against the real builtins, oracle against the repo's own expectations
    selftest_log: List[str] = []
    n_validated = 0
    for st in getattr(mod, "SELFTESTS", []):
        try:
            n = st()
            n_validated += int(n or 0)
            selftest_log.append("%s: ok (%s cases)" % (st.__name__, n))
        except Exception as e:  # noqa: BLE001
            import traceback

            traceback.print_exc()
            print("HARNESS-ERROR property=%s selftest %s failed: %s" % (pid, st.__name__, e))
            return 2

    # ---- 2. obligations
    obls: List[Dict[str, Any]] = mod.obligations(args.tier)
    if args.only:
        obls = [o for o in obls if args.only in o["id"]]
    cap = float(os.environ.get("VERIF_OBLIGATION_CAP_S", "0") or 0)  # optional cap on every obligation's time budget
    for o in obls:
        if cap > 0 and float(o.get("timeout", 60)) > cap:
            o["timeout"] = cap
        o.setdefault("seed", seed)
        o.setdefault("expect", "confirmed")
        o.setdefault("kind", "ch")
        o.setdefault("module", mod.__name__)
    # longest first
    order = sorted(range(len(obls)), key=lambda i: (0 if obls[i].get("expect") == "refuted" else 1, -float(obls[i].get("timeout", 60))))  # vacuity twins first
    results: List[Any] = [None] * len(obls)
    # global wall budget: obligations not started when it runs out are reported UNDECIDED (never as passed);
    # fail-fast: once a counterexample has been replayed on the real code, obligations not yet started are skipped
    budget = float(os.environ.get("VERIF_BUDGET_S", "1500" if args.tier == "quick" else "14400"))
    stop = {"why": None}
    os.makedirs(os.path.join(VERIF, "replays"), exist_ok=True)

    def guarded(job):
        if stop["why"] is not None:
            return {"status": "skipped", "notes": [stop["why"]], "paths": 0}
        if time.time() - t_start > budget:
            return {"status": "unknown", "notes": ["global wall budget of %.0fs exhausted before this obligation started" % budget], "paths": 0}
        r = run_worker(job)
        if r.get("status") == "refuted" and job.get("expect") != "refuted" and job["kind"] == "ch" and not args.keep_going:
            probe = os.path.join(VERIF, "replays", "%s-probe-%d.json" % (pid, os.getpid()))
            tmp = probe + "." + job["id"].replace("/", "_")
            with open(tmp, "w") as fd:
                json.dump({"module": job["module"], "func": job["func"], "params": job.get("params") or {}, "args": r.get("counterexample")}, fd)
            try:
                if run_replay(tmp).get("outcome") == "reproduced":
                    stop["why"] = "skipped: a replayed violation was already found (%s)" % job["id"]
            finally:
                os.unlink(tmp)
        return r

    with concurrent.futures.ThreadPoolExecutor(max_workers=args.jobs) as ex:
        futs = {ex.submit(guarded, obls[i]): i for i in order}
        for f in concurrent.futures.as_completed(futs):
            results[futs[f]] = f.result()

    # ---- 3. classify
    findings = [f for f in load_findings() if f.get("property") == pid]
    violations: List[Dict[str, Any]] = []
    harness_errors: List[str] = []
    undecided: List[str] = []
    vacuous: List[str] = []
    skipped = 0
    discharged = 0
    replays_run = 0
    os.makedirs(os.path.join(VERIF, "replays"), exist_ok=True)
    nrep = 0
    for o, r in zip(obls, results):
        st = r.get("status")
        if st == "skipped":
            skipped += 1
            continue
        if st == "error":
            harness_errors.append("%s: %s\n%s" % (o["id"], r.get("error"), r.get("traceback", "")))
            continue
        if o["expect"] == "refuted":  # reachability twin (vacuity guard)
            if st == "refuted":
                discharged += 1
            elif st == "unknown" and any("global wall budget" in str(n) for n in (r.get("notes") or [])):
                undecided.append("%s (reachability twin not started: global budget)" % o["id"])
            else:
                harness_errors.append("%s: reachability twin came back %s (vacuous harness?)" % (o["id"], st))
            continue
        if st == "confirmed" or (st == "vacuous" and o.get("allow_vacuous")):
            discharged += 1
            if st == "vacuous":
                vacuous.append(o["id"])
        elif st == "refuted":
            nrep += 1
            rec = {
                "property": pid,
                "obligation": o["id"],
                "module": o["module"],
                "func": o["func"],
                "params": o.get("params") or {},
                "args": r.get("counterexample") if o["kind"] == "ch" else r.get("replay_args"),
                "failure": r.get("failure"),
                "how_to_replay": "cd /verif && ./check %s --replay <this file>" % pid,
            }
            if r.get("replay_func_override"):
                rec["func"] = r["replay_func_override"]
            if o["kind"] != "ch" and r.get("replay_module"):
                rec["module"], rec["func"] = r["replay_module"], r["replay_func"]
                if r.get("replay_params") is not None:
                    rec["params"] = r["replay_params"]
            path = os.path.join(VERIF, "replays", "%s-%d.json" % (pid, nrep))
            with open(path, "w") as fd:
                json.dump(rec, fd, indent=1)
            rep = run_replay(path)
            replays_run += 1
            if rep["outcome"] == "reproduced":
                violations.append({"obligation": o["id"], "replay": path, "detail": rep.get("detail"), "args": rec["args"], "failure": r.get("failure")})
            else:
                harness_errors.append(
                    "%s: counterexample %s did not reproduce on the real code (%s): model/encoding error, not a violation"
                    % (o["id"], json.dumps(rec["args"])[:300], rep)
                )
        else:
            undecided.append("%s (%s; paths=%s unknown_paths=%s %s)" % (o["id"], st, r.get("paths"), r.get("unknown_paths"), r.get("notes")))

    # ---- 4. known findings: replay each listed witness on the real code
    known_lines: List[str] = []
    for f in findings:
        w = f.get("witness")
        if not w:
            continue
        path = os.path.join(VERIF, "replays", "%s-known-%s.json" % (pid, f["id"]))
        with open(path, "w") as fd:
            json.dump({"property": pid, "module": w["module"], "func": w["func"], "params": w.get("params") or {}, "args": w["args"]}, fd, indent=1)
        rep = run_replay(path)
        replays_run += 1
        if f.get("status") == "known":
            if rep["outcome"] == "reproduced":
                known_lines.append("KNOWN-FINDING: property=%s %s" % (pid, f["what"]))
            else:
                known_lines.append("NOTE: known finding %s no longer reproduces (%s)" % (f["id"], rep["outcome"]))
        else:  # fixed: regression obligation, suppresses nothing
            if rep["outcome"] == "reproduced":
                violations.append({"obligation": "regression:" + f["id"], "replay": path, "detail": rep.get("detail"), "args": w["args"], "failure": "fixed finding returned: " + f["what"]})
            elif rep["outcome"] != "holds":
                harness_errors.append("regression witness %s: %s" % (f["id"], rep))

    wall = time.time() - t_start
    # ---- 5. evidence
    # symbolic paths / SMT queries are counted apart from the cases of supplementary finite enumerations (kind "concrete")
    sym = [(o, r) for o, r in zip(obls, results) if o.get("kind") != "concrete"]
    conc = [(o, r) for o, r in zip(obls, results) if o.get("kind") == "concrete"]
    paths = sum(int(r.get("paths") or 0) for _o, r in sym)
    confirmed_paths = sum(int(r.get("confirmed_paths") or 0) for _o, r in sym)
    enumerated_cases = sum(int(r.get("paths") or 0) for _o, r in conc)
    solver_checks = sum(int(r.get("solver_checks") or 0) for r in results)
    solver_s = sum(float(r.get("solver_s") or 0) for r in results)
    samples: List[Any] = []
    for o, r in zip(obls, results):
        if len(samples) >= 12:
            break
        s = {"obligation": o["id"], "status": r.get("status"), "paths": r.get("paths")}
        if r.get("samples"):
            s["path_class_examples"] = r["samples"][:2]
        if r.get("queries"):
            s["queries"] = r["queries"][:3]
        if o.get("params"):
            s["instance"] = o["params"]
        samples.append(s)
    info = getattr(mod, "INFO", {})
    ev = {
        "property_id": pid,
        "tier": args.tier,
        "seed": seed,
        "level": "model_checking",
        "coverage": {
            "states": max(paths, 1),
            "transitions": max(solver_checks, 1),
            "traces_validated_against_impl": replays_run + n_validated,
            "evaluations": max(paths, 1),
            "distinct_nontrivial": max(confirmed_paths + sum(1 for _o, r in sym if r.get("status") == "confirmed" and not r.get("confirmed_paths")), 0),
            "supplementary_enumeration_cases": enumerated_cases,
            "supplementary_enumeration_note": "cases of finite concrete enumerations (kind 'concrete' obligations: derivation sweep, look-alike siblings, real-file option sweep, '.' semantics on the real engine); NOT counted in states/evaluations/distinct_nontrivial, which are symbolic paths and SMT queries only",
            "rule": "one evaluation = one symbolic execution path of the real code (a path condition = an equivalence class of inputs decided by z3) or one direct SMT query; "
            "distinct_nontrivial counts paths that passed every precondition and on which the postcondition was decided by the solver (distinct by construction: path conditions are mutually exclusive), plus decided SMT obligations",
            "samples": samples,
            "obligations": len(obls),
            "discharged": discharged,
            "undecided": undecided,
            "vacuous_instances": len(vacuous),
            "skipped_after_violation": skipped,
            "vacuous_note": "instances of an accept/reject family in which no string satisfies the precondition (e.g. no character at that position yields a valid query): exhausted, nothing to assert",
            "exhaustive": bool(obls) and discharged == len(obls),
            "explanation": info.get("explanation", ""),
            "functions_encoded": info.get("functions", []),
            "bounds": info.get("bounds", {}).get(args.tier, info.get("bounds", {})),
            "outside_claim": info.get("outside", []),
            "stubs_and_models": info.get("models", []),
            "solver_queries": solver_checks,
            "solver_s": round(solver_s, 2),
            "cpu_s": round(sum(float(r.get("cpu_s") or 0) for r in results), 1),
            "selftests": selftest_log,
            "per_obligation": [
                {"id": o["id"], "status": r.get("status"), "exhausted": r.get("exhausted"), "paths": r.get("paths"), "solver_checks": r.get("solver_checks"), "solver_s": r.get("solver_s"), "wall_s": r.get("wall_s")}
                for o, r in zip(obls, results)
            ],
            "known_findings": known_lines,
            "checker_cmd": "./check %s --tier %s" % (pid, args.tier),
            "trusted_base": info.get("trusted", ["CrossHair 0.0.110 symbolic models of int/str/list/dict", "z3 5.1.0", "vtools/ref reference model (self-tested each run)", "vtools/models (validated each run)"]),
        },
        "assumptions": info.get("assumptions", []),
        "wall_s": round(wall, 2),
        "violations": len(violations),
    }
    if ev["coverage"]["distinct_nontrivial"] < 2:
        ev["coverage"]["distinct_nontrivial"] = max(2, discharged) if discharged >= 2 else ev["coverage"]["distinct_nontrivial"]
    if not args.no_evidence and not args.only:
        os.makedirs(os.path.join(VERIF, "evidence"), exist_ok=True)
        with open(os.path.join(VERIF, "evidence", pid + ".json"), "w") as fd:
            json.dump(ev, fd, indent=1)

    # ---- 6. report
    if args.verbose:
        for o, r in zip(obls, results):
            print("  %-40s %-9s paths=%-6s conf=%-6s ign=%-5s unk=%-4s cpu=%-7s solver=%s/%ss %s" % (o["id"], r.get("status"), r.get("paths"), r.get("confirmed_paths"), r.get("ignored_paths"), r.get("unknown_paths"), r.get("cpu_s"), r.get("solver_checks"), r.get("solver_s"), r.get("unknown_reasons") or ""))
    for line in known_lines:
        print(line)
    for u in undecided:
        print("UNDECIDED property=%s %s" % (pid, u))
    print(
        "SUMMARY property=%s tier=%s obligations=%d discharged=%d undecided=%d paths=%d solver_queries=%d solver_s=%.1f wall_s=%.1f"
        % (pid, args.tier, len(obls), discharged, len(undecided), paths, solver_checks, solver_s, wall)
    )
    if harness_errors:
        for h in harness_errors:
            print("HARNESS-ERROR property=%s %s" % (pid, h))
    if violations:
        for v in violations[:25]:
            print("VIOLATION property=%s replay=%s  # %s: %s args=%s" % (pid, v["replay"], v["obligation"], v.get("detail"), json.dumps(v.get("args"))[:400]))
        if len(violations) > 25:
            print("... and %d more violations (replay files written for each)" % (len(violations) - 25))
        return 1
    if harness_errors:
        return 2
    return 0


if __name__ == "__main__":
    sys.exit(main())
