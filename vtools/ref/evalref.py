"""Reference evaluator for RFC 9535 §2.3–2.5 over the AST of vtools.ref.grammar (written from the RFC)."""
from __future__ import annotations

from typing import Any, Callable, Dict, List, Optional, Tuple

from .compare import REF_NOTHING, ref_compare
from .grammar import LOGICAL, NODES, VALUE, _is_func, _is_lit, _is_query, number_value
from .slices import ref_index, ref_slice

Node = Tuple[Tuple[Any, ...], Any]


def _length(v):
    if isinstance(v, (str, list, dict)):
        return len(v)
    return REF_NOTHING


def _count(nodes):
    return len(nodes)


def _value(nodes):
    return nodes[0][1] if len(nodes) == 1 else REF_NOTHING


class RefFunctions:
    """name -> (param types, result type, implementation over reference values)."""

    def __init__(self, extra: Optional[Dict[str, Tuple[Tuple[str, ...], str, Callable[..., Any]]]] = None):
        self.table: Dict[str, Tuple[Tuple[str, ...], str, Callable[..., Any]]] = {
            "length": ((VALUE,), VALUE, _length),
            "count": ((NODES,), VALUE, _count),
            "value": ((NODES,), VALUE, _value),
        }
        if extra:
            self.table.update(extra)

    def get(self, name: str):
        for k in self.table:
            if k == name:
                return self.table[k]
        raise KeyError(name)

    def signatures(self):
        return {k: (v[0], v[1]) for k, v in self.table.items()}


DEFAULT_FUNCTIONS = RefFunctions()


def children(loc, v) -> List[Node]:
    if isinstance(v, dict):
        return [(loc + (k,), v[k]) for k in v]
    if isinstance(v, list):
        return [(loc + (i,), x) for i, x in enumerate(v)]
    return []


def descendants(loc, v) -> List[Node]:
    """The node itself and all its descendants in document pre-order."""
    out: List[Node] = [(loc, v)]
    for cl, cv in children(loc, v):
        out.extend(descendants(cl, cv))
    return out


def apply_selector(sel, loc, v, root, fns) -> List[Node]:
    k = sel[0]
    if k == "name":
        if isinstance(v, dict):
            name = sel[1]
            for key in v:
                if key == name:
                    return [(loc + (key,), v[key])]
        return []
    if k == "index":
        if isinstance(v, list):
            j = ref_index(len(v), sel[1])
            if j is not None:
                return [(loc + (j,), v[j])]
        return []
    if k == "slice":
        if isinstance(v, list):
            return [(loc + (j,), v[j]) for j in ref_slice(len(v), sel[1], sel[2], sel[3])]
        return []
    if k == "wild":
        return children(loc, v)
    if k == "filter":
        return [(cl, cv) for cl, cv in children(loc, v) if truth(sel[1], cv, root, fns)]
    raise ValueError(sel)


def ref_eval(query, value, root=None, fns: RefFunctions = DEFAULT_FUNCTIONS) -> List[Node]:
    """Nodelist of *query* (("$"|"@", segments)) applied to *value*; *root* is the query argument for nested "$"."""
    if root is None:
        root = value
    nodes: List[Node] = [((), value)]
    for kind, sels in query[1]:
        new: List[Node] = []
        for loc, v in nodes:
            targets = [(loc, v)] if kind == "child" else descendants(loc, v)
            for tl, tv in targets:
                for sel in sels:
                    new.extend(apply_selector(sel, tl, tv, root, fns))
        nodes = new
    return nodes


def _query_nodes(q, cur, root, fns) -> List[Node]:
    return ref_eval(q, root if q[0] == "$" else cur, root, fns)


def literal_value(lit):
    k = lit[0]
    if k == "str":
        return lit[1]
    if k == "num":
        return number_value(lit)
    if k == "bool":
        return lit[1]
    return None


def call(node, cur, root, fns):
    _f, name, args = node
    params, _ret, impl = fns.get(name)
    vals = []
    for p, a in zip(params, args):
        if p == VALUE:
            vals.append(comparand(a, cur, root, fns))
        elif p == LOGICAL:
            vals.append(truth(a, cur, root, fns))
        else:
            if _is_query(a):
                vals.append(_query_nodes(a, cur, root, fns))
            else:
                vals.append(call(a, cur, root, fns))
    return impl(*vals)


def comparand(e, cur, root, fns):
    if _is_lit(e):
        return literal_value(e)
    if _is_query(e):
        nodes = _query_nodes(e, cur, root, fns)
        if len(nodes) == 1:
            return nodes[0][1]
        return REF_NOTHING  # singular queries select at most one node
    if _is_func(e):
        return call(e, cur, root, fns)
    raise ValueError(e)


def truth(e, cur, root, fns) -> bool:
    k = e[0]
    if k == "or":
        r = False
        for x in e[1]:
            if truth(x, cur, root, fns):
                r = True
        return r
    if k == "and":
        r = True
        for x in e[1]:
            if not truth(x, cur, root, fns):
                r = False
        return r
    if k == "not":
        return not truth(e[1], cur, root, fns)
    if k == "cmp":
        return ref_compare(comparand(e[2], cur, root, fns), e[1], comparand(e[3], cur, root, fns))
    if _is_query(e):
        return len(_query_nodes(e, cur, root, fns)) > 0
    if _is_func(e):
        _p, ret, _i = fns.get(e[1])
        r = call(e, cur, root, fns)
        if ret == NODES:
            return len(r) > 0
        return bool(r)
    raise ValueError(e)


def ref_normalized_path(loc) -> str:
    """RFC 9535 §2.7 normalized path of a location."""
    out = ["$"]
    for key in loc:
        if isinstance(key, str):
            out.append("[" + ref_normal_name(key) + "]")
        else:
            out.append("[" + ref_int(key) + "]")
    return "".join(out)


_HEX = "0123456789abcdef"


def ref_int(v: int) -> str:
    if v == 0:
        return "0"
    ds = []
    n = v
    while n > 0:
        ds.append(chr(48 + n % 10))
        n //= 10
    ds.reverse()
    return "".join(ds)


def ref_normal_name(s: str) -> str:
    """normal-single-quoted: only \\b \\f \\n \\r \\t \\' \\\\ and \\u00XX (lower-case hex) for other controls."""
    out = ["'"]
    for ch in s:
        o = ord(ch)
        if o == 0x08:
            out.append("\\b")
        elif o == 0x0C:
            out.append("\\f")
        elif o == 0x0A:
            out.append("\\n")
        elif o == 0x0D:
            out.append("\\r")
        elif o == 0x09:
            out.append("\\t")
        elif o == 0x27:
            out.append("\\'")
        elif o == 0x5C:
            out.append("\\\\")
        elif o < 0x20:
            hi = "0" if o < 16 else "1"
            lo = o % 16
            d = "0"
            for k in range(16):
                if lo == k:
                    d = _HEX[k]
            out.append("\\u00" + hi + d)
        else:
            out.append(ch)
    out.append("'")
    return "".join(out)
