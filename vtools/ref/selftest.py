"""Oracle self-test (DESIGN §3.3): the expectations recorded in the repository's own test files are pushed
through the reference model; any disagreement stops the check (exit 2) before anything is asserted about the code."""
from __future__ import annotations

import importlib.util
import re
from typing import Any

from .evalref import RefFunctions, ref_eval, ref_normalized_path
from .grammar import LOGICAL, NODES, VALUE, ref_parse, ref_verdict

TESTS = "/repo/tests/"


def _load(name: str):
    spec = importlib.util.spec_from_file_location("vt_" + name, TESTS + name + ".py")
    m = importlib.util.module_from_spec(spec)
    spec.loader.exec_module(m)
    return m


def _iregexp_to_re(p: str) -> str:
    return p  # the few patterns in the repository's examples are common to I-Regexp and Python's re


def _match(s, p):
    return isinstance(s, str) and isinstance(p, str) and re.fullmatch(_iregexp_to_re(p), s) is not None


def _search(s, p):
    return isinstance(s, str) and isinstance(p, str) and re.search(_iregexp_to_re(p), s) is not None


FNS = RefFunctions({"match": ((VALUE, VALUE), LOGICAL, _match), "search": ((VALUE, VALUE), LOGICAL, _search)})


def oracle_selftest() -> int:
    n = 0
    sigs = FNS.signatures()
    for name in ("test_ietf_examples", "test_goessner"):
        m = _load(name)
        for case in m.TEST_CASES:
            ast = ref_parse(case.query, sigs)
            got = [v for _loc, v in ref_eval(ast, case.data, None, FNS)]
            assert got == case.want, (name, case.description, got, case.want)
            n += 1
    m = _load("test_normalized_path")
    for case in m.TEST_CASES:
        got = [ref_normalized_path(loc) for loc, _v in ref_eval(ref_parse(case.query, sigs), case.data, None, FNS)]
        assert got == case.want, (case.description, got, case.want)
        n += 1
    m = _load("test_parse")
    for case in m.TEST_CASES:
        assert ref_verdict(case.query, sigs) == "valid", ("test_parse", case.query)
        # the expected serialisation recorded in the test is itself a valid query with the same meaning
        a, b = ref_parse(case.query, sigs), ref_parse(case.want, sigs)
        from .astnf import ref_nf

        assert ref_nf(a) == ref_nf(b), ("test_parse", case.query, case.want)
        n += 1
    m = _load("test_lex")
    for case in m.TEST_CASES:
        from jsonpath_rfc9535.tokens import TokenType

        has_error = any(t.type_ == TokenType.ERROR for t in case.want)
        if has_error:
            assert ref_verdict(case.query, sigs) != "valid", ("test_lex", case.query)
            n += 1
    m = _load("test_errors")
    for case in m.BAD_FILTER_LITERAL_TEST_CASES:
        assert ref_verdict(case.query, sigs) == "syntax", ("test_errors", case.query)
        n += 1
    src = open(TESTS + "test_errors.py").read()
    for q in re.findall(r'env\.compile\("((?:[^"\\]|\\.)*)"\)', src):
        assert ref_verdict(q, sigs) != "valid", ("test_errors", q)
        n += 1
    m = _load("test_ietf_well_typedness")
    tmap = {"VALUE": VALUE, "LOGICAL": LOGICAL, "NODES": NODES}
    s2 = dict(sigs)
    for fname, cls in (("foo", m.MockFoo), ("bar", m.MockBar), ("bn", m.MockBn), ("bl", m.MockBl)):
        s2[fname] = (tuple(tmap[t.name] for t in cls.arg_types), tmap[cls.return_type.name])
    for case in m.TEST_CASES:
        v = ref_verdict(case.query, s2)
        assert (v == "valid") == case.valid, ("well-typedness", case.query, v, case.valid)
        n += 1
    assert n >= 120, n
    return n
