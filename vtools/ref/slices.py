"""RFC 9535 §2.3.3.2 / §2.3.4.2.2: index and slice semantics, written from the RFC text."""
from __future__ import annotations

from typing import List, Optional


def ref_index(n: int, i: int) -> Optional[int]:
    """Array position selected by index selector *i* in an array of length *n*, or None."""
    if i >= 0:
        return i if i < n else None
    j = n + i
    return j if j >= 0 else None


def _normalize(i: int, n: int) -> int:
    return i if i >= 0 else n + i


def ref_slice(n: int, start: Optional[int], end: Optional[int], step: Optional[int]) -> List[int]:
    """Positions selected, in order, by ``start:end:step`` on an array of length *n*."""
    if step is None:
        step = 1
    if step == 0:
        return []
    if start is None:
        start = 0 if step >= 0 else n - 1
    if end is None:
        end = n if step >= 0 else -n - 1
    n_start = _normalize(start, n)
    n_end = _normalize(end, n)
    if step >= 0:
        lower = min(max(n_start, 0), n)
        upper = min(max(n_end, 0), n)
    else:
        upper = min(max(n_start, -1), n - 1)
        lower = min(max(n_end, -1), n - 1)
    out: List[int] = []
    if step > 0:
        i = lower
        while i < upper:
            out.append(i)
            i += step
    else:
        i = upper
        while lower < i:
            out.append(i)
            i += step
    return out
