"""Reference recogniser for RFC 9535 (Appendix A ABNF + the validity rules of §2.1, §2.4.3).

Written directly from the RFC, independently of the library: a recursive-descent parser over a
``str`` using only index-based scanning and explicit character/code-point comparisons (no regular
expressions, no hashing of characters), so that it can run symbolically on the *same* symbolic input
as the implementation.

``ref_parse(q)`` returns an AST (nested tuples) or raises

* ``RefSyntaxError`` – *q* is not derivable from the ABNF (not well-formed);
* ``RefInvalid``     – well-formed but invalid (integer outside the I-JSON range, not well-typed,
  unknown function, non-singular query used as comparand).

AST
---
query    ("$" | "@", (segment, ...))
segment  ("child" | "desc", (selector, ...))
selector ("name", str) | ("index", int) | ("slice", start|None, end|None, step|None) | ("wild",)
         | ("filter", expr)
expr     ("or", (e, ...)) | ("and", (e, ...)) | ("not", e) | ("cmp", op, operand, operand)
         | query | ("func", name, (arg, ...)) | literal
literal  ("str", s) | ("num", value) | ("bool", b) | ("null",)

``or``/``and`` chains are flattened (they are associative); parentheses leave no node.
"""
from __future__ import annotations

from typing import Any, Dict, List, Optional, Tuple

I_JSON_MAX = 2**53 - 1
I_JSON_MIN = -(2**53) + 1

VALUE, LOGICAL, NODES = "V", "L", "N"

BUILTIN_SIGNATURES: Dict[str, Tuple[Tuple[str, ...], str]] = {
    "length": ((VALUE,), VALUE),
    "count": ((NODES,), VALUE),
    "match": ((VALUE, VALUE), LOGICAL),
    "search": ((VALUE, VALUE), LOGICAL),
    "value": ((NODES,), VALUE),
}


class RefSyntaxError(Exception):
    def __init__(self, pos: int, why: str = "") -> None:
        super().__init__("not well-formed at %r: %s" % (pos, why))
        self.pos = pos
        self.why = why


class RefInvalid(Exception):
    pass


def _is_blank(c: str) -> bool:
    return c == " " or c == "\t" or c == "\n" or c == "\r"


def _is_digit(c: str) -> bool:
    return "0" <= c <= "9"


def _is_alpha(c: str) -> bool:
    return ("a" <= c <= "z") or ("A" <= c <= "Z")


def _is_name_first(c: str) -> bool:
    if _is_alpha(c) or c == "_":
        return True
    o = ord(c)
    return (0x80 <= o <= 0xD7FF) or (0xE000 <= o <= 0x10FFFF)


def _is_name_char(c: str) -> bool:
    return _is_name_first(c) or _is_digit(c)


def _is_lc(c: str) -> bool:
    return "a" <= c <= "z"


def _hexval(c: str) -> int:
    if "0" <= c <= "9":
        return ord(c) - 48
    if "a" <= c <= "f":
        return ord(c) - 87
    if "A" <= c <= "F":
        return ord(c) - 55
    return -1


class RefParser:
    def __init__(self, q: str, signatures: Optional[Dict[str, Tuple[Tuple[str, ...], str]]] = None,
                 int_min: int = I_JSON_MIN, int_max: int = I_JSON_MAX) -> None:
        self.q = q
        self.n = len(q)
        self.sigs = BUILTIN_SIGNATURES if signatures is None else signatures
        self.int_min = int_min
        self.int_max = int_max
        # set when the only thing that decides well-formedness is a point on which the RFC's ABNF
        # and its prose/compliance suite are known to disagree (DESIGN §3.3 "don't care")
        self.disputed = False
        self.invalid: Optional[str] = None  # first validity problem (reported after well-formedness)
        self.blank_brackets: List[int] = []  # positions of "[" whose bracketed selection contains blank space next to a bracket/comma

    # ------------------------------------------------------------------ helpers
    def at(self, i: int) -> str:
        return self.q[i] if i < self.n else ""

    def skip_s(self, i: int) -> int:
        while i < self.n and _is_blank(self.q[i]):
            i += 1
        return i

    def fail(self, i: int, why: str = ""):
        raise RefSyntaxError(i, why)

    def mark_invalid(self, why: str) -> None:
        if self.invalid is None:
            self.invalid = why

    # ------------------------------------------------------------------ jsonpath-query
    def parse(self):
        if self.at(0) != "$":
            self.fail(0, "expected $")
        segs, i = self.segments(1)
        if i != self.n:
            self.fail(i, "trailing characters")
        ast = strip_parens(("$", segs))
        if self.invalid is not None:
            raise RefInvalid(self.invalid)
        return ast

    def segments(self, i: int):
        segs: List[Any] = []
        while True:
            j = self.skip_s(i)
            c = self.at(j)
            if c == "[" or c == ".":
                seg, i = self.segment(j)
                segs.append(seg)
            else:
                return tuple(segs), i

    def segment(self, i: int):
        c = self.at(i)
        if c == "[":
            sels, j = self.bracketed(i)
            return ("child", sels), j
        # c == "."
        if self.at(i + 1) == ".":
            j = i + 2
            c2 = self.at(j)
            if c2 == "[":
                sels, k = self.bracketed(j)
                return ("desc", sels), k
            if c2 == "*":
                return ("desc", (("wild",),)), j + 1
            if c2 != "" and _is_name_first(c2):
                name, k = self.shorthand(j)
                return ("desc", (("name", name),)), k
            self.fail(j, "descendant segment")
        j = i + 1
        c2 = self.at(j)
        if c2 == "*":
            return ("child", (("wild",),)), j + 1
        if c2 != "" and _is_name_first(c2):
            name, k = self.shorthand(j)
            return ("child", (("name", name),)), k
        self.fail(j, "child segment")

    def shorthand(self, i: int):
        j = i + 1
        while j < self.n and _is_name_char(self.q[j]):
            j += 1
        return self.q[i:j], j

    def bracketed(self, i: int):
        # "[" S selector *(S "," S selector) S "]"
        j = self.skip_s(i + 1)
        if j != i + 1:
            self.blank_brackets.append(i)
        sels: List[Any] = []
        sel, j = self.selector(j)
        sels.append(sel)
        while True:
            j0 = j
            j = self.skip_s(j)
            if j != j0:
                self.blank_brackets.append(i)
            c = self.at(j)
            if c == ",":
                j = self.skip_s(j + 1)
                sel, j = self.selector(j)
                sels.append(sel)
            elif c == "]":
                return tuple(sels), j + 1
            else:
                self.fail(j, "expected , or ]")

    def selector(self, i: int):
        c = self.at(i)
        if c == "'" or c == '"':
            s, j = self.string_literal(i)
            return ("name", s), j
        if c == "*":
            return ("wild",), i + 1
        if c == "?":
            j = self.skip_s(i + 1)
            e, j = self.logical_or(j, False)
            return ("filter", e), j
        # index or slice
        start: Optional[int] = None
        j = i
        if c == "-" or (c != "" and _is_digit(c)):
            start, j = self.integer(i)
        k = self.skip_s(j)
        if self.at(k) == ":":
            # slice-selector = [start S] ":" S [end S] [":" [S step ]]
            end: Optional[int] = None
            step: Optional[int] = None
            k = self.skip_s(k + 1)
            c2 = self.at(k)
            after = k
            if c2 == "-" or (c2 != "" and _is_digit(c2)):
                end, after = self.integer(k)
                k2 = self.skip_s(after)
            else:
                k2 = k
            if self.at(k2) == ":":
                k3 = self.skip_s(k2 + 1)
                c3 = self.at(k3)
                if c3 == "-" or (c3 != "" and _is_digit(c3)):
                    step, after = self.integer(k3)
                else:
                    after = k2 + 1
            for v in (start, end, step):
                if v is not None and (v < self.int_min or v > self.int_max):
                    self.mark_invalid("slice component out of range")
            return ("slice", start, end, step), after
        if start is None:
            self.fail(i, "expected a selector")
        if start < self.int_min or start > self.int_max:
            self.mark_invalid("index out of range")
        return ("index", start), j

    def integer(self, i: int):
        """int = "0" / (["-"] DIGIT1 *DIGIT)"""
        j = i
        neg = False
        if self.at(j) == "-":
            neg = True
            j += 1
        c = self.at(j)
        if c == "" or not _is_digit(c):
            self.fail(j, "digit expected")
        if c == "0":
            if neg:
                self.fail(i, "-0 is not an int")
            return 0, j + 1
        v = 0
        while j < self.n and _is_digit(self.q[j]):
            v = v * 10 + (ord(self.q[j]) - 48)
            j += 1
        return (-v if neg else v), j

    # ------------------------------------------------------------------ string literals
    def string_literal(self, i: int):
        quote = self.q[i]
        other = '"' if quote == "'" else "'"
        out: List[str] = []
        j = i + 1
        while True:
            if j >= self.n:
                self.fail(j, "unclosed string")
            c = self.q[j]
            if c == quote:
                return "".join(out), j + 1
            if c == "\\":
                e = self.at(j + 1)
                if e == "":
                    self.fail(j + 1, "truncated escape")
                if e == quote:
                    out.append(quote)
                    j += 2
                elif e == "b":
                    out.append("\x08")
                    j += 2
                elif e == "f":
                    out.append("\x0c")
                    j += 2
                elif e == "n":
                    out.append("\n")
                    j += 2
                elif e == "r":
                    out.append("\r")
                    j += 2
                elif e == "t":
                    out.append("\t")
                    j += 2
                elif e == "/":
                    out.append("/")
                    j += 2
                elif e == "\\":
                    out.append("\\")
                    j += 2
                elif e == "u":
                    cp, j = self.hexchar(j + 2)
                    out.append(chr(cp))
                else:
                    self.fail(j + 1, "unknown escape")
                continue
            o = ord(c)
            if c == other or (o >= 0x20 and not (0xD800 <= o <= 0xDFFF)):
                out.append(c)
                j += 1
            else:
                self.fail(j, "character not allowed unescaped")

    def hex4(self, i: int) -> int:
        v = 0
        for k in range(4):
            c = self.at(i + k)
            if c == "":
                self.fail(i + k, "truncated \\u escape")
            h = _hexval(c)
            if h < 0:
                self.fail(i + k, "hex digit expected")
            v = v * 16 + h
        return v

    def hexchar(self, i: int):
        """hexchar = non-surrogate / (high-surrogate "\\" %x75 low-surrogate); *i* is just after "\\u"."""
        cp = self.hex4(i)
        if 0xDC00 <= cp <= 0xDFFF:
            self.fail(i, "lone low surrogate")
        if 0xD800 <= cp <= 0xDBFF:
            if self.at(i + 4) != "\\" or self.at(i + 5) != "u":
                self.fail(i + 4, "high surrogate not followed by \\u")
            lo = self.hex4(i + 6)
            if not (0xDC00 <= lo <= 0xDFFF):
                self.fail(i + 6, "low surrogate expected")
            return 0x10000 + (cp - 0xD800) * 0x400 + (lo - 0xDC00), i + 10
        return cp, i + 4

    # ------------------------------------------------------------------ filter expressions
    def logical_or(self, i: int, allow_lit: bool):
        first, j = self.logical_and(i, allow_lit)
        items = [first]
        while True:
            k = self.skip_s(j)
            if self.at(k) == "|" and self.at(k + 1) == "|":
                if len(items) == 1 and _is_lit(first):
                    self.fail(i, "literal is not a logical expression")
                k = self.skip_s(k + 2)
                nxt, j = self.logical_and(k, False)
                items.append(nxt)
            else:
                break
        if len(items) == 1:
            return first, j
        flat: List[Any] = []
        for it in items:
            if isinstance(it, tuple) and it[0] == "or":
                flat.extend(it[1])
            else:
                flat.append(it)
        return ("or", tuple(flat)), j

    def logical_and(self, i: int, allow_lit: bool):
        first, j = self.basic(i, allow_lit)
        items = [first]
        while True:
            k = self.skip_s(j)
            if self.at(k) == "&" and self.at(k + 1) == "&":
                if len(items) == 1 and _is_lit(first):
                    self.fail(i, "literal is not a logical expression")
                k = self.skip_s(k + 2)
                nxt, j = self.basic(k, False)
                items.append(nxt)
            else:
                break
        if len(items) == 1:
            return first, j
        flat: List[Any] = []
        for it in items:
            if isinstance(it, tuple) and it[0] == "and":
                flat.extend(it[1])
            else:
                flat.append(it)
        return ("and", tuple(flat)), j

    def basic(self, i: int, allow_lit: bool):
        """basic-expr = paren-expr / comparison-expr / test-expr"""
        c = self.at(i)
        if c == "!":
            j = self.skip_s(i + 1)
            if self.at(j) == "(":
                e, k = self.paren(j)
                return ("not", e[1]), k
            operand, k = self.operand(j)
            if _is_lit(operand):
                self.fail(j, "literal cannot be negated")
            self.check_test(operand)
            return ("not", operand), k
        if c == "(":
            return self.paren(i)
        left, j = self.operand(i)
        k = self.skip_s(j)
        op, k2 = self.comparison_op(k)
        if op is not None:
            k2 = self.skip_s(k2)
            right, j2 = self.operand(k2)
            self.check_comparable(left)
            self.check_comparable(right)
            # name-segment / index-segment of a singular query have no S inside the brackets in the ABNF,
            # while the RFC prose and the compliance suite allow it: asserted as "don't care"
            for (node, s0, e0) in ((left, i, j), (right, k2, j2)):
                if _is_query(node):
                    for p in self.blank_brackets:
                        if s0 <= p < e0:
                            self.disputed = True
            return ("cmp", op, left, right), j2
        if _is_lit(left):
            if allow_lit:
                return left, j
            self.fail(i, "literal must be compared")
        if not allow_lit:
            # (at the top of a function argument a bare call/query is a function-expr / filter-query argument,
            #  typed against the parameter by check_call, not a test-expr)
            self.check_test(left)
        return left, j

    def paren(self, i: int):
        j = self.skip_s(i + 1)
        e, j = self.logical_or(j, False)
        j = self.skip_s(j)
        if self.at(j) != ")":
            self.fail(j, "expected )")
        # the node records the parentheses only because a parenthesized query/call is a logical expression
        # (LogicalType), not a filter-query / function-expr argument; normal forms drop it
        return ("paren", e), j + 1

    def comparison_op(self, i: int):
        c, d = self.at(i), self.at(i + 1)
        if c == "=" and d == "=":
            return "==", i + 2
        if c == "!" and d == "=":
            return "!=", i + 2
        if c == "<":
            return ("<=", i + 2) if d == "=" else ("<", i + 1)
        if c == ">":
            return (">=", i + 2) if d == "=" else (">", i + 1)
        return None, i

    def operand(self, i: int):
        """literal / filter-query / function-expr (what can start a comparison-expr or a test-expr)."""
        c = self.at(i)
        if c == "":
            self.fail(i, "operand expected")
        if c == "'" or c == '"':
            s, j = self.string_literal(i)
            return ("str", s), j
        if c == "-" or _is_digit(c):
            return self.number(i)
        if c == "$" or c == "@":
            segs, j = self.segments(i + 1)
            return (c, segs), j
        if _is_lc(c):
            j = i + 1
            while j < self.n and (_is_lc(self.q[j]) or self.q[j] == "_" or _is_digit(self.q[j])):
                j += 1
            name = self.q[i:j]
            if self.at(j) == "(":
                return self.function(name, j)
            if name == "true":
                return ("bool", True), j
            if name == "false":
                return ("bool", False), j
            if name == "null":
                return ("null",), j
            self.fail(i, "unknown keyword")
        self.fail(i, "operand expected")

    def number(self, i: int):
        """number = (int / "-0") [ frac ] [ exp ]"""
        j = i
        neg = False
        if self.at(j) == "-":
            neg = True
            j += 1
        c = self.at(j)
        if c == "" or not _is_digit(c):
            self.fail(j, "digit expected")
        mant = 0
        if c == "0":
            j += 1
        else:
            while j < self.n and _is_digit(self.q[j]):
                mant = mant * 10 + (ord(self.q[j]) - 48)
                j += 1
        scale = 0
        is_int = True
        if self.at(j) == ".":
            d = self.at(j + 1)
            if d == "" or not _is_digit(d):
                self.fail(j + 1, "fraction digits expected")
            is_int = False
            j += 1
            while j < self.n and _is_digit(self.q[j]):
                mant = mant * 10 + (ord(self.q[j]) - 48)
                scale += 1
                j += 1
        e = self.at(j)
        if e == "e" or e == "E":
            k = j + 1
            eneg = False
            s = self.at(k)
            if s == "-" or s == "+":
                eneg = s == "-"
                k += 1
            d = self.at(k)
            if d == "" or not _is_digit(d):
                self.fail(k, "exponent digits expected")
            ev = 0
            while k < self.n and _is_digit(self.q[k]):
                ev = ev * 10 + (ord(self.q[k]) - 48)
                k += 1
            j = k
            scale = scale + ev if eneg else scale - ev
            if eneg:
                is_int = False
        # value = mant * 10**(-scale): exact int when scale <= 0, else the correctly rounded quotient
        if neg:
            mant = -mant
        return ("num", mant, scale, is_int), j

    def function(self, name: str, i: int):
        """function-expr = function-name "(" S [function-argument *(S "," S function-argument)] S ")"; *i* at "("."""
        j = self.skip_s(i + 1)
        args: List[Any] = []
        if self.at(j) == ")":
            j += 1
        else:
            while True:
                a, j = self.logical_or(j, True)
                args.append(a)
                j = self.skip_s(j)
                c = self.at(j)
                if c == ",":
                    j = self.skip_s(j + 1)
                elif c == ")":
                    j += 1
                    break
                else:
                    self.fail(j, "expected , or )")
        node = ("func", name, tuple(args))
        self.check_call(node)
        return node, j

    # ------------------------------------------------------------------ validity (RFC 9535 §2.4.3)
    def sig(self, name: str):
        for k in self.sigs:  # linear scan: no hashing of a possibly symbolic name
            if k == name:
                return self.sigs[k]
        return None

    def check_call(self, node) -> None:
        _f, name, args = node
        sg = self.sig(name)
        if sg is None:
            self.mark_invalid("unknown function")
            return
        params, _ret = sg
        if len(params) != len(args):
            self.mark_invalid("wrong number of arguments")
            return
        for p, a in zip(params, args):
            if p == VALUE:
                ok = _is_lit(a) or (_is_query(a) and is_singular(a)) or (_is_func(a) and self.ret_type(a) == VALUE)
            elif p == LOGICAL:
                if _is_lit(a):
                    ok = False
                elif _is_func(a):
                    ok = self.ret_type(a) in (LOGICAL, NODES)
                else:
                    ok = True  # query (existence test), comparison, !, &&, ||, parenthesised
            else:  # NODES
                ok = _is_query(a) or (_is_func(a) and self.ret_type(a) == NODES)
            if not ok:
                self.mark_invalid("argument of %s() not well-typed" % (name,))

    def ret_type(self, node) -> Optional[str]:
        sg = self.sig(node[1])
        return None if sg is None else sg[1]

    def check_test(self, node) -> None:
        """test-expr: a query, or a function whose result is LogicalType or NodesType."""
        if _is_func(node):
            rt = self.ret_type(node)
            if rt is not None and rt == VALUE:
                self.mark_invalid("ValueType function result used as a test")

    def check_comparable(self, node) -> None:
        if _is_query(node):
            if not is_singular(node):
                self.mark_invalid("non-singular query in comparison")
        elif _is_func(node):
            rt = self.ret_type(node)
            if rt is not None and rt != VALUE:
                self.mark_invalid("non-ValueType function result compared")


def _is_lit(n) -> bool:
    return isinstance(n, tuple) and len(n) > 0 and (n[0] == "str" or n[0] == "num" or n[0] == "bool" or n[0] == "null")


def _is_query(n) -> bool:
    return isinstance(n, tuple) and len(n) == 2 and (n[0] == "$" or n[0] == "@")


def _is_func(n) -> bool:
    return isinstance(n, tuple) and len(n) == 3 and n[0] == "func"


def strip_parens(n):
    """The AST without ("paren", e) nodes (and/or chains re-flattened)."""
    if isinstance(n, tuple):
        if len(n) == 2 and n[0] == "paren":
            return strip_parens(n[1])
        if len(n) == 2 and (n[0] == "or" or n[0] == "and"):
            flat = []
            for it in n[1]:
                it = strip_parens(it)
                if isinstance(it, tuple) and len(it) == 2 and it[0] == n[0]:
                    flat.extend(it[1])
                else:
                    flat.append(it)
            return (n[0], tuple(flat))
        return tuple(strip_parens(x) for x in n)
    return n


def is_singular(query) -> bool:
    for kind, sels in query[1]:
        if kind != "child" or len(sels) != 1:
            return False
        if sels[0][0] != "name" and sels[0][0] != "index":
            return False
    return True


def number_value(lit):
    """Python value of a ("num", mant, scale, is_int) literal: exact int, or the correctly rounded double."""
    _k, mant, scale, is_int = lit
    if scale <= 0:
        v = mant * 10 ** (-scale)
        if is_int:
            return v
        try:
            return float(v)
        except OverflowError:  # beyond the range of doubles: reads as an infinity, like Python's float("1.0e320")
            return float("inf") if v > 0 else float("-inf")
    return mant / 10**scale


def ref_parse(q: str, signatures=None, int_min: int = I_JSON_MIN, int_max: int = I_JSON_MAX):
    return RefParser(q, signatures, int_min, int_max).parse()


def ref_verdict(q: str, signatures=None, int_min: int = I_JSON_MIN, int_max: int = I_JSON_MAX) -> str:
    """"valid" | "syntax" | "invalid"."""
    try:
        RefParser(q, signatures, int_min, int_max).parse()
    except RefSyntaxError:
        return "syntax"
    except RefInvalid:
        return "invalid"
    return "valid"
