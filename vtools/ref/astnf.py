"""Normal form of the *implementation's* compiled query, comparable with the reference AST (DESIGN §3.3 astnf)."""
from __future__ import annotations

from typing import Any

from jsonpath_rfc9535.filter_expressions import (
    BooleanLiteral,
    ComparisonExpression,
    FilterExpression,
    FloatLiteral,
    FunctionExtension,
    IntegerLiteral,
    LogicalExpression,
    NullLiteral,
    PrefixExpression,
    RelativeFilterQuery,
    RootFilterQuery,
    StringLiteral,
)
from jsonpath_rfc9535.segments import JSONPathChildSegment, JSONPathRecursiveDescentSegment
from jsonpath_rfc9535.selectors import FilterSelector, IndexSelector, NameSelector, SliceSelector, WildcardSelector

from .grammar import number_value


def _numnf(v):
    """Numbers are I-JSON doubles: beyond the exactly representable integers compare the nearest double."""
    if isinstance(v, bool):
        return v
    if isinstance(v, int) and (v > 2**53 or v < -(2**53)):
        try:
            return float(v)
        except OverflowError:
            return float("inf") if v > 0 else float("-inf")
    return v


def astnf_query(q, root: str = "$"):
    return (root, tuple(astnf_segment(s) for s in q.segments))


def astnf_segment(s):
    sels = tuple(astnf_selector(x) for x in s.selectors)
    if isinstance(s, JSONPathRecursiveDescentSegment):
        return ("desc", sels)
    if isinstance(s, JSONPathChildSegment):
        return ("child", sels)
    raise TypeError(type(s))


def astnf_selector(x):
    if isinstance(x, NameSelector):
        return ("name", x.name)
    if isinstance(x, IndexSelector):
        return ("index", x.index)
    if isinstance(x, SliceSelector):
        return ("slice", x.slice.start, x.slice.stop, 1 if x.slice.step is None else x.slice.step)
    if isinstance(x, WildcardSelector):
        return ("wild",)
    if isinstance(x, FilterSelector):
        return ("filter", astnf_expr(x.expression))
    raise TypeError(type(x))


def _flat(kind: str, items):
    out = []
    for it in items:
        if isinstance(it, tuple) and it[0] == kind:
            out.extend(it[1])
        else:
            out.append(it)
    return (kind, tuple(out))


def astnf_expr(e) -> Any:
    if isinstance(e, FilterExpression):
        return astnf_expr(e.expression)
    if isinstance(e, LogicalExpression):
        l, r = astnf_expr(e.left), astnf_expr(e.right)
        if e.operator == "&&":
            return _flat("and", (l, r))
        if e.operator == "||":
            return _flat("or", (l, r))
        raise ValueError(e.operator)
    if isinstance(e, ComparisonExpression):
        return ("cmp", e.operator, astnf_expr(e.left), astnf_expr(e.right))
    if isinstance(e, PrefixExpression):
        if e.operator != "!":
            raise ValueError(e.operator)
        return ("not", astnf_expr(e.right))
    if isinstance(e, RelativeFilterQuery):
        return astnf_query(e.query, "@")
    if isinstance(e, RootFilterQuery):
        return astnf_query(e.query, "$")
    if isinstance(e, FunctionExtension):
        return ("func", e.name, tuple(astnf_expr(a) for a in e.args))
    if isinstance(e, StringLiteral):
        return ("str", e.value)
    if isinstance(e, BooleanLiteral):
        return ("bool", e.value)
    if isinstance(e, NullLiteral):
        return ("null",)
    if isinstance(e, (IntegerLiteral, FloatLiteral)):
        return ("numval", _numnf(e.value))
    raise TypeError(type(e))


def ref_nf(ast):
    """The reference AST in the same normal form (numeric literals by value)."""
    if isinstance(ast, tuple):
        if len(ast) == 4 and ast[0] == "num":
            return ("numval", _numnf(number_value(ast)))
        if len(ast) == 4 and ast[0] == "slice":
            return ("slice", ast[1], ast[2], 1 if ast[3] is None else ast[3])  # an omitted step is 1 (RFC 9535 2.3.4.2.2)
        return tuple(ref_nf(x) for x in ast)
    return ast
