"""RFC 9535 §2.3.5.2.2 comparison table, written from the RFC text.  ``NOTHING`` is any object passed as *nothing*."""
from __future__ import annotations


class _Nothing:
    def __repr__(self) -> str:
        return "<ref-nothing>"


REF_NOTHING = _Nothing()


def kind(v) -> str:
    if v is REF_NOTHING:
        return "nothing"
    if v is None:
        return "null"
    if isinstance(v, bool):
        return "bool"
    if isinstance(v, (int, float)):
        return "number"
    if isinstance(v, str):
        return "string"
    if isinstance(v, list):
        return "array"
    if isinstance(v, dict):
        return "object"
    raise TypeError("not a JSON value: %r" % (type(v),))


def ref_eq(a, b) -> bool:
    ka, kb = kind(a), kind(b)
    if ka == "nothing" or kb == "nothing":
        return ka == kb
    if ka != kb:
        return False
    if ka == "null":
        return True
    if ka == "bool":
        return (a and b) or (not a and not b)
    if ka in ("number", "string"):
        return a == b
    if ka == "array":
        if len(a) != len(b):
            return False
        for x, y in zip(a, b):
            if not ref_eq(x, y):
                return False
        return True
    # object: same names, equal values, order irrelevant, no duplicate names in Python dicts
    if len(a) != len(b):
        return False
    for k in a:
        if k not in b:
            return False
        if not ref_eq(a[k], b[k]):
            return False
    return True


def ref_lt(a, b) -> bool:
    ka, kb = kind(a), kind(b)
    if ka == "number" and kb == "number":
        return a < b
    if ka == "string" and kb == "string":
        return a < b  # Python orders str by code point = Unicode scalar value order
    return False


def ref_compare(a, op: str, b) -> bool:
    if op == "==":
        return ref_eq(a, b)
    if op == "!=":
        return not ref_eq(a, b)
    if op == "<":
        return ref_lt(a, b)
    if op == ">":
        return ref_lt(b, a)
    if op == "<=":
        return ref_lt(a, b) or ref_eq(a, b)
    if op == ">=":
        return ref_lt(b, a) or ref_eq(a, b)
    raise ValueError(op)
