"""Per-obligation instance parameters, preconditions and known-finding classes.

This module must import without CrossHair so that replays run in a plain
interpreter (DESIGN §3.1 step 4).
"""
from __future__ import annotations

import json
import os
from typing import Any, Dict, List

import sys


class PreconditionNotMet(Exception):
    """Raised in replay mode when a counterexample is outside the harness domain."""


REPLAY = False  # set by vtools.replay
P: Dict[str, Any] = {}  # instance parameters of the obligation being run
LOG: List[Any] = []  # harness-side log (concrete path results, e.g. C17 orderings)

VERIF_DIR = os.path.dirname(os.path.dirname(os.path.abspath(__file__)))
_KF_CACHE = None


def _prune(why: str) -> None:
    """Abandon the current symbolic path (CrossHair's IgnoreAttempt); plain runs raise."""
    if not REPLAY and "crosshair.util" in sys.modules:
        raise sys.modules["crosshair.util"].IgnoreAttempt(why)
    raise PreconditionNotMet(why)


def assume(cond: Any) -> None:
    if not cond:
        _prune("precondition")


def known_findings() -> List[Dict[str, Any]]:
    global _KF_CACHE
    if _KF_CACHE is None:
        path = os.path.join(VERIF_DIR, "known_findings.json")
        try:
            with open(path) as fd:
                _KF_CACHE = json.load(fd).get("findings", [])
        except FileNotFoundError:
            _KF_CACHE = []
    return _KF_CACHE


def known_active(cls: str) -> bool:
    """True iff a *known* (unfixed) finding with this class name is listed."""
    for f in known_findings():
        if f.get("status") == "known" and f.get("class") == cls:
            return True
    return False


def exclude_known(cls: str, cond: Any) -> None:
    """Assume the input is outside the known-finding class *cls* (only while listed).

    In replay mode nothing is excluded: the runner classifies reproduced
    counterexamples itself.
    """
    if REPLAY:
        return
    if known_active(cls) and cond:
        _prune("known finding class " + cls)


def symbolic_args(**spec: Any):
    """Give a ``def h(**kw)`` harness an explicit keyword-only signature (name -> type).

    Lets harnesses with many regularly-named symbolic parameters be declared programmatically;
    unused parameters of atomic types cost nothing in the symbolic executor.
    """
    import inspect

    def deco(fn):
        params = [inspect.Parameter(n, inspect.Parameter.KEYWORD_ONLY, annotation=t) for n, t in spec.items()]
        fn.__signature__ = inspect.Signature(params)
        fn.__annotations__ = dict(spec)
        return fn

    return deco


# ------------------------------------------------------------------ lazily created symbolic inputs
FRESH: Dict[str, Any] = {}  # name -> value drawn on the current path (symbolic while exploring)
FRESH_REPLAY: Dict[str, Any] = {}  # name -> concrete value (replay mode)


def fresh(typ: Any, name: str) -> Any:
    """A symbolic value of type *typ*, created at the point of first use on the current path.

    CrossHair creates declared parameters eagerly and some types (float, Union, containers) fork at
    creation, so parameters that a path never uses would multiply the path count.  Values drawn with
    ``fresh`` are recorded by name; a counterexample lists them and the replay feeds them back.
    """
    if name in FRESH:
        return FRESH[name]
    if REPLAY or "crosshair.core" not in sys.modules:
        if name not in FRESH_REPLAY:
            raise PreconditionNotMet("replay has no value for " + name)
        v = FRESH_REPLAY[name]
    else:
        core = sys.modules["crosshair.core"]
        v = core.proxy_for_type(typ, name)
    FRESH[name] = v
    return v


def inconclusive(why: str) -> None:
    """The harness cannot judge this path (e.g. the code uses an API the stubs do not model): the path is counted as
    *unknown* (the obligation becomes undecided), never as a pass and never as a violation."""
    if not REPLAY and "crosshair.util" in sys.modules:
        raise sys.modules["crosshair.util"].CrosshairUnsupported(why)
    raise PreconditionNotMet(why)
