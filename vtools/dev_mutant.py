"""Development aid (not a manifest command): apply a textual mutation to /repo, run a command, always revert.

usage: python3 vtools/dev_mutant.py FILE OLD NEW -- cmd...
"""
import subprocess
import sys

f, old, new = sys.argv[1:4]
cmd = sys.argv[5:]
path = "/repo/" + f
src = open(path).read()
assert src.count(old) >= 1, "pattern not found"
open(path, "w").write(src.replace(old, new, 1))
try:
    t = subprocess.run("cd /repo && /venv/bin/python -m pytest -q -x -p no:cacheprovider --ignore=tests/test_compliance.py --ignore=tests/test_cts_nondeterminism.py --ignore=tests/test_nts.py 2>&1 | tail -2", shell=True, capture_output=True, text=True)
    print("TESTS:", t.stdout.strip().replace("\n", " | "))
    r = subprocess.run(cmd)
    print("exit", r.returncode)
finally:
    open(path, "w").write(src)
    subprocess.run(["git", "-C", "/repo", "status", "--short"])
