"""Replay a counterexample on the real code in a plain interpreter (no CrossHair, no models).

usage: python -m vtools.replay <replay.json>     exit 0 = harness holds (not reproduced)
                                                  exit 1 = violation reproduced
                                                  exit 3 = input outside the harness domain
"""
from __future__ import annotations

import importlib
import json
import sys
import traceback


def replay(rec) -> dict:
    from vtools import inst

    inst.REPLAY = True
    inst.P.clear()
    inst.P.update(rec.get("params") or {})
    mod = importlib.import_module(rec["module"])
    fn = getattr(mod, rec["func"])
    args = rec.get("args") or {}
    dec = getattr(mod, "decode_args", None)
    if dec is not None:
        args = dec(rec["func"], args)
    import inspect

    declared = set(inspect.signature(fn).parameters)
    inst.FRESH.clear()
    inst.FRESH_REPLAY.clear()
    inst.FRESH_REPLAY.update({k: v for k, v in args.items() if k not in declared})
    args = {k: v for k, v in args.items() if k in declared}
    try:
        ret = fn(**args)
    except inst.PreconditionNotMet:
        return {"outcome": "outside-domain"}
    except Exception as e:  # noqa: BLE001
        return {
            "outcome": "reproduced",
            "detail": "exception %s: %s" % (type(e).__name__, str(e)[:300]),
            "traceback": traceback.format_exc()[-1500:],
        }
    if ret is True:
        return {"outcome": "holds"}
    return {"outcome": "reproduced", "detail": "harness returned %r" % (ret,)}


def main() -> int:
    assert "crosshair" not in sys.modules
    with open(sys.argv[1]) as fd:
        rec = json.load(fd)
    out = replay(rec)
    assert "crosshair" not in sys.modules, "replay must not load the symbolic executor"
    print(json.dumps(out))
    return {"holds": 0, "reproduced": 1, "outside-domain": 3}[out["outcome"]]


if __name__ == "__main__":
    sys.exit(main())
