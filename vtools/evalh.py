"""Shared pieces of the evaluation harnesses (C01, C02, C08, C10, C14-C16): symbolic structural queries built through the
public constructors together with their reference AST, and the node-list comparison with identity and location walk."""
from __future__ import annotations

from typing import Any, List, Optional, Tuple, Union

from jsonpath_rfc9535 import JSONPathEnvironment
from jsonpath_rfc9535.query import JSONPathQuery
from jsonpath_rfc9535.segments import JSONPathChildSegment, JSONPathRecursiveDescentSegment
from jsonpath_rfc9535.selectors import IndexSelector, NameSelector, SliceSelector, WildcardSelector
from jsonpath_rfc9535.tokens import Token, TokenType

from vtools import hcommon, models
from vtools.inst import assume, fresh

LIM = 2**53 - 1
TOK = Token(TokenType.ROOT, "$", 0, "$")
QUERY_NAMES = ["a", "b", "", "zz"]  # member names of the documents plus one that never occurs


def walk(root, loc):
    """Follow a location key by key from the root."""
    v = root
    for key in loc:
        if isinstance(key, str):
            if not isinstance(v, dict):
                raise KeyError("not an object at %r" % (key,))
            v = v[key]
        else:
            if not isinstance(v, list) or isinstance(key, bool) or key < 0:
                raise KeyError("not an array / bad index at %r" % (key,))
            v = list.__getitem__(v, key)
    return v


def same_value(a, b) -> bool:
    if isinstance(a, (list, dict)) or isinstance(b, (list, dict)):
        return a is b
    if type(a) is not type(b) and (isinstance(a, bool) or isinstance(b, bool)):
        return False
    return a == b


def check_nodes(nodes, expected, root) -> Union[bool, str]:
    """nodes: JSONPathNode list from the library; expected: [(location, value)] from the reference."""
    if len(nodes) != len(expected):
        return "library returned %d nodes %r, RFC gives %d %r" % (len(nodes), [n.location for n in nodes], len(expected), [e[0] for e in expected])
    for n, (loc, val) in zip(nodes, expected):
        if n.location != loc:
            return "node order/location differs: %r vs RFC %r" % ([x.location for x in nodes], [e[0] for e in expected])
        if not same_value(n.value, val):
            return "node at %r holds %r, RFC gives %r" % (loc, n.value, val)
        try:
            w = walk(root, n.location)
        except (KeyError, IndexError) as e:
            return "location %r does not lead anywhere in the document (%s)" % (n.location, e)
        if not same_value(w, n.value):
            return "location %r leads to %r, node holds %r" % (n.location, w, n.value)
        if n.root is not root:
            return "node.root is not the query argument"
    return True


# ------------------------------------------------------------------ structural query templates
def sym_int(name: str) -> int:
    v = fresh(int, name)
    assume(-LIM <= v <= LIM)
    return v


def sym_opt_int(name: str) -> Optional[int]:
    if fresh(bool, name + "_omitted"):
        return None
    return sym_int(name)


def build_selector(spec: str, name: str, env):
    """-> (implementation selector, reference selector tuple), both over the same symbolic parameters."""
    if spec == "wild":
        return WildcardSelector(env=env, token=TOK), ("wild",)
    if spec == "name":
        nm = hcommon.sym_name(name, QUERY_NAMES)
        return NameSelector(env=env, token=TOK, name=nm), ("name", nm)
    if spec == "index":
        i = sym_int(name)
        return IndexSelector(env=env, token=TOK, index=i), ("index", i)
    if spec == "slice":
        s, e, t = sym_opt_int(name + "s"), sym_opt_int(name + "e"), sym_opt_int(name + "t")
        return SliceSelector(env=env, token=TOK, start=s, stop=e, step=t), ("slice", s, e, t)
    raise ValueError(spec)


def build_query(template, env) -> Tuple[JSONPathQuery, Any]:
    """template: [("child"|"desc", [selector spec, ...]), ...]"""
    segs = []
    rsegs = []
    for si, (kind, specs) in enumerate(template):
        sels = []
        rsels = []
        for j, spec in enumerate(specs):
            s, r = build_selector(spec, "q%d_%d" % (si, j), env)
            sels.append(s)
            rsels.append(r)
        cls = JSONPathChildSegment if kind == "child" else JSONPathRecursiveDescentSegment
        segs.append(cls(env=env, token=TOK, selectors=tuple(sels)))
        rsegs.append((kind, tuple(rsels)))
    return JSONPathQuery(env=env, segments=tuple(segs)), ("$", tuple(rsegs))


def template_text(template) -> str:
    out = "$"
    for kind, specs in template:
        out += (".." if kind == "desc" else "") + "[" + ",".join({"wild": "*", "name": "<name>", "index": "<i>", "slice": "<s>:<e>:<t>"}[s] for s in specs) + "]"
    return out


def to_model_lists(v):
    """Arrays as ModelList (Python-level subscript, M2) throughout a document; objects keep their identity semantics."""
    if isinstance(v, list):
        return models.ModelList([to_model_lists(x) for x in v])
    if isinstance(v, dict):
        for k in list(v.keys()):
            v[k] = to_model_lists(v[k])
        return v
    return v


def sym_document(name: str, depth: int, width: int, rootkind=None, leaf_kind=2, names=("a", "b")):
    doc = hcommon.sym_json(name, depth, width, kind=rootkind, leaf_kind=leaf_kind, strlen=1, intbound=1000, names=list(names))
    if hcommon.symbolic_mode():
        doc = to_model_lists(doc)
    return doc
