"""Harness-side patches registered with CrossHair's patch registry (symbolic runs only; never in replays)."""
from __future__ import annotations

from typing import Any

from crosshair import core
from crosshair.libimpl import builtinslib

from vtools import models

from crosshair.core import deep_realize, realize
from crosshair.tracers import NoTracing
from crosshair.util import CrossHairValue

_MISSING = builtinslib._MISSING


def model_int(val: Any = 0, base: Any = _MISSING):
    """int(): CrossHair's own model realizes the whole string on a leading '-'.

    This one keeps ``-?[0-9]+`` symbolic (pure arithmetic over the code points) and realizes otherwise.
    """
    with NoTracing():
        sym_str = isinstance(val, builtinslib.AnySymbolicStr)
        sym_int = isinstance(val, builtinslib.SymbolicInt)
    if base is _MISSING:
        if sym_int:
            return val
        if sym_str:
            n = len(val)
            if n == 0:
                raise ValueError("invalid literal for int() with base 10: ''")
            neg = val[0] == "-"
            digits = val[1:] if neg else val
            if len(digits) == 0:
                raise ValueError("invalid literal for int() with base 10: '-'")
            ret = 0
            for ch in digits:
                d = ord(ch) - 48
                if any((d < 0, d > 9)):
                    return int(realize(val))
                ret = ret * 10 + d
            return -ret if neg else ret
    with NoTracing():
        if isinstance(val, CrossHairValue):
            val = deep_realize(val)
        if isinstance(base, CrossHairValue):
            base = deep_realize(base)
    return int(val) if base is _MISSING else int(val, base)


def _check_hashable(v) -> None:
    """What C-level hashing does first: a value whose type has ``__hash__ = None`` (list, dict, set and their subclasses,
    also inside tuples) is refused with TypeError.  Never realizes anything."""
    with NoTracing():
        t = type(v)
        # only stand-ins of types that are unhashable in plain Python: some executor proxies of *hashable* types (uniform
        # tuples, concatenations) have no __hash__ of their own and must not be refused here
        unhashable = getattr(t, "__hash__", None) is None and (
            issubclass(t, (list, dict, set, bytearray)) or t.__name__ in ("ShellMutableSequence", "ShellMutableSet", "ShellMutableMap", "SymbolicList", "SymbolicDict", "SymbolicByteArray"))
        name = t.__name__
        items = tuple(v) if t is tuple else ()
    if unhashable:
        raise TypeError("unhashable type: '%s'" % name)
    for x in items:
        _check_hashable(x)


def _lru_call_model(self, *a, **kw):
    """M11: CrossHair skips ``functools.lru_cache`` caches altogether (it calls the wrapped function), which also skips the
    hashing of the arguments - and with it the TypeError a real call raises for a list/dict argument.  Keep the skip (a cache
    must not change results - that is C14's business, decided on real replays), restore the TypeError."""
    import functools

    if not isinstance(self, functools._lru_cache_wrapper):
        raise TypeError
    for x in a:
        _check_hashable(x)
    for x in kw.values():
        _check_hashable(x)
    return self.__wrapped__(*a, **kw)


def install(slices: bool = True, ints: bool = True) -> None:
    import functools

    reg = core._PATCH_REGISTRATIONS
    reg[functools._lru_cache_wrapper.__call__] = _lru_call_model
    if slices:
        reg[slice.indices] = models.slice_indices
    if ints:
        reg[int] = model_int


def use_real_floats() -> None:
    """Model ``float`` as a mathematical real on every path (CrossHair otherwise also forks into an IEEE
    bit-precise model whose int<->float conversions z3 cannot decide within the per-path budget).

    Exact for ==/< between finite ints and floats: CPython compares them by exact numeric value.
    """
    bl = builtinslib
    bl._PYTYPE_TO_WRAPPER_TYPE[float] = ((bl.RealBasedSymbolicFloat, 1.0),)


# ------------------------------------------------------------------ bitwise operations on symbolic ints (M9)
# CrossHair realizes symbolic ints in << | & (DESIGN F11), and Int2BV/BV2Int terms stall z3 (F20).  For the operand
# shapes the library uses they are plain arithmetic; each rewrite below is *guarded by a checked condition* (a fork the
# solver decides), so it is exact wherever it applies, and falls back to CrossHair's own behaviour otherwise.
_SI = builtinslib.SymbolicInt
_orig_bit = {}


def _is_concrete_int(x: Any) -> bool:
    with NoTracing():
        return type(x) is int


def _lshift(self, other):
    if _is_concrete_int(other) and 0 <= other <= 64:
        return self * (1 << other)
    return _orig_bit["__lshift__"](self, other)


def _and(self, other):
    if _is_concrete_int(other) and other >= 0 and (other & (other + 1)) == 0:  # mask 2^k - 1
        if self >= 0:
            return self % (other + 1)
    return _orig_bit["__and__"](self, other)


def _or_general(a, b, fallback):
    for k in (4, 10, 16):
        m = 1 << k
        if a % m == 0:
            if 0 <= b:
                if b < m:
                    return a + b
    return fallback()


def _or(self, other):
    if _is_concrete_int(other) and other == 0:
        return self
    return _or_general(self, other, lambda: _orig_bit["__or__"](self, other))


def _ror(self, other):
    if _is_concrete_int(other) and other == 0:
        return self
    return _or_general(other, self, lambda: _orig_bit["__ror__"](self, other))


def model_str_encode(self, encoding: Any = "utf-8", errors: Any = "strict"):
    """str.encode('utf-8') as arithmetic over the code points (exact; surrogates are outside the harness domain)."""
    with NoTracing():
        sym = isinstance(self, builtinslib.AnySymbolicStr)
    if not sym or encoding not in ("utf-8", "utf8", "UTF-8") or errors != "strict":
        with NoTracing():
            s = deep_realize(self)
        return s.encode(realize(encoding), realize(errors))
    out = []
    for chx in self:
        c = ord(chx)
        if c < 0x80:
            out.append(c)
        elif c < 0x800:
            out.append(0xC0 + c // 64)
            out.append(0x80 + c % 64)
        elif c < 0x10000:
            out.append(0xE0 + c // 4096)
            out.append(0x80 + (c // 64) % 64)
            out.append(0x80 + c % 64)
        else:
            out.append(0xF0 + c // 262144)
            out.append(0x80 + (c // 4096) % 64)
            out.append(0x80 + (c // 64) % 64)
            out.append(0x80 + c % 64)
    return out  # only iterated by the code under analysis


def install_bitwise() -> None:
    if not _orig_bit:
        for nm in ("__lshift__", "__and__", "__or__", "__ror__"):
            _orig_bit[nm] = getattr(_SI, nm)
    _SI.__lshift__ = _lshift  # type: ignore[assignment]
    _SI.__and__ = _and  # type: ignore[assignment]
    _SI.__or__ = _or  # type: ignore[assignment]
    _SI.__ror__ = _ror  # type: ignore[assignment]
    core._PATCH_REGISTRATIONS[str.encode] = model_str_encode


# ------------------------------------------------------------------ M5: json.dumps(str, ensure_ascii=False)
def install_json_dumps() -> None:
    """``canonical_string`` calls json.dumps(name, ensure_ascii=False): per-character escaping kept symbolic (models.json_escape)."""
    import json

    real_dumps = json.dumps

    def model_dumps(obj, *a, **kw):
        with NoTracing():
            sym = isinstance(obj, builtinslib.AnySymbolicStr)
        if sym and not a and kw == {"ensure_ascii": False}:
            return models.json_escape(obj)
        with NoTracing():
            obj = deep_realize(obj)
        return real_dumps(obj, *a, **kw)

    core._PATCH_REGISTRATIONS[json.dumps] = model_dumps


def install_fstring_str() -> None:
    """f"{obj}" where obj.__str__ returns a *symbolic* string (e.g. f"?{self.expression}"): CrossHair formats through
    format(obj, ""), whose C implementation insists on a concrete str and so realizes it.  Route the empty format spec
    through CrossHair's own symbolic-aware str()."""
    from crosshair import opcode_intercept as oi

    orig = oi.FormatStashingValue.__format__

    def __format__(self, fmt):
        if fmt == "":
            self.formatted = builtinslib._str(self.value)
            return ""
        return orig(self, fmt)

    oi.FormatStashingValue.__format__ = __format__  # type: ignore[assignment]


def install_concrete_float() -> None:
    """M8 (round-trip obligations): float(<symbolic numeral>) realizes the numeral and converts it with the real float(),
    because str -> double -> str rounding is exactly what those obligations are about (digits are then fork-enumerated)."""

    def model_float(val: Any = 0.0):
        with NoTracing():
            if isinstance(val, CrossHairValue):
                val = deep_realize(val)
        return float(val)

    core._PATCH_REGISTRATIONS[float] = model_float


def install_int_repr_placeholder() -> None:
    """str()/repr() of a symbolic int forks on the number of digits (x34 for I-JSON ints).  Evaluation harnesses never look
    at such strings (IndexSelector.__init__ computes an unused ``_as_key = str(index)``), so they get a placeholder."""
    builtinslib.SymbolicInt.__repr__ = lambda self: "<symbolic int>"  # type: ignore[assignment]


def install_regex_stub() -> None:
    """M10: the foreign regex engine (C extension) cannot take symbolic strings - and the library's own
    ``except TypeError: return False`` would silently turn that into a wrong answer.  For patterns without
    constructs outside Python's ``re`` (no \\p{..}, i.e. no rewritten '.'), ``regex.fullmatch/search`` are modelled by
    the standard ``re`` functions, which the executor keeps symbolic; otherwise the arguments are realized."""
    import re as pyre

    import regex

    def _model(realfn, pyfn):
        def model(pattern, string, *flags, **kw):
            if not isinstance(string, str):  # what the C function does with a non-string subject
                raise TypeError("expected string or buffer")
            with NoTracing():
                pat = deep_realize(pattern)
                sym = isinstance(string, builtinslib.AnySymbolicStr)
            if sym and isinstance(pat, str) and "\\p" not in pat and "\\P" not in pat:
                try:
                    pyre.compile(pat)
                except pyre.error:
                    raise regex.error("invalid pattern (model)")
                return pyfn(pat, string)
            with NoTracing():
                string = deep_realize(string)
            return realfn(pat, string, *flags, **kw)

        return model

    core._PATCH_REGISTRATIONS[regex.fullmatch] = _model(regex.fullmatch, pyre.fullmatch)
    core._PATCH_REGISTRATIONS[regex.search] = _model(regex.search, pyre.search)
