"""Harness-side patches registered with CrossHair's patch registry (symbolic runs only; never in replays)."""
from __future__ import annotations

from typing import Any

from crosshair import core
from crosshair.libimpl import builtinslib

from vtools import models

from crosshair.core import deep_realize, realize
from crosshair.tracers import NoTracing
from crosshair.util import CrossHairValue

_MISSING = builtinslib._MISSING


def model_int(val: Any = 0, base: Any = _MISSING):
    """int(): CrossHair's own model realizes the whole string on a leading '-'.

    This one keeps ``-?[0-9]+`` symbolic (pure arithmetic over the code points) and realizes otherwise.
    """
    with NoTracing():
        sym_str = isinstance(val, builtinslib.AnySymbolicStr)
        sym_int = isinstance(val, builtinslib.SymbolicInt)
    if base is _MISSING:
        if sym_int:
            return val
        if sym_str:
            n = len(val)
            if n == 0:
                raise ValueError("invalid literal for int() with base 10: ''")
            neg = val[0] == "-"
            digits = val[1:] if neg else val
            if len(digits) == 0:
                raise ValueError("invalid literal for int() with base 10: '-'")
            ret = 0
            for ch in digits:
                d = ord(ch) - 48
                if any((d < 0, d > 9)):
                    return int(realize(val))
                ret = ret * 10 + d
            return -ret if neg else ret
    with NoTracing():
        if isinstance(val, CrossHairValue):
            val = deep_realize(val)
        if isinstance(base, CrossHairValue):
            base = deep_realize(base)
    return int(val) if base is _MISSING else int(val, base)


def install(slices: bool = True, ints: bool = True) -> None:
    reg = core._PATCH_REGISTRATIONS
    if slices:
        reg[slice.indices] = models.slice_indices
    if ints:
        reg[int] = model_int


def use_real_floats() -> None:
    """Model ``float`` as a mathematical real on every path (CrossHair otherwise also forks into an IEEE
    bit-precise model whose int<->float conversions z3 cannot decide within the per-path budget).

    Exact for ==/< between finite ints and floats: CPython compares them by exact numeric value.
    """
    bl = builtinslib
    bl._PYTYPE_TO_WRAPPER_TYPE[float] = ((bl.RealBasedSymbolicFloat, 1.0),)
