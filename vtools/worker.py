"""One OS process = one obligation.  Reads a JSON job on stdin, writes a JSON result on stdout."""
from __future__ import annotations

import importlib
import json
import os
import random
import sys
import time
import traceback


def _jsonable(x):
    if isinstance(x, (str, int, float, bool)) or x is None:
        return x
    if isinstance(x, (list, tuple)):
        return [_jsonable(i) for i in x]
    if isinstance(x, dict):
        return {str(k): _jsonable(v) for k, v in x.items()}
    return repr(x)


def _scratch():
    d = os.path.join(os.path.dirname(os.path.dirname(os.path.abspath(__file__))), "replays")
    os.makedirs(d, exist_ok=True)
    return d


def run_job(job):
    from vtools import inst

    random.seed(job.get("seed", 0))
    inst.P.clear()
    inst.P.update(job.get("params") or {})
    del inst.LOG[:]
    kind = job["kind"]
    t0 = time.time()
    mod = importlib.import_module(job["module"])
    fn = getattr(mod, job["func"])
    if kind == "ch":
        from vtools import chdrive

        samples = []

        def on_confirmed(arguments, ret):
            if len(samples) < 3:
                from crosshair.core import deep_realize

                samples.append(_jsonable(deep_realize(dict(arguments))))

        setup = getattr(mod, "ch_setup", None)
        if setup is not None:
            setup()
        def confirm(cex):
            """Replay the counterexample in a plain interpreter (separate process, no executor, real builtins)."""
            import subprocess
            import tempfile

            rec = {"module": job["module"], "func": job["func"], "params": job.get("params") or {}, "args": _jsonable(cex)}
            with tempfile.NamedTemporaryFile("w", suffix=".json", delete=False, dir=_scratch()) as fd:
                json.dump(rec, fd)
                path = fd.name
            try:
                p = subprocess.run([sys.executable, "-m", "vtools.replay", path], capture_output=True, text=True, timeout=600)
                return p.returncode == 1
            except subprocess.TimeoutExpired:
                return True  # a hang on the real code is reported; the runner's own replay decides
            finally:
                os.unlink(path)

        ex = chdrive.explore(
            fn,
            timeout=float(job["timeout"]),
            per_path_timeout=float(job.get("per_path_timeout", 20.0)),
            on_confirmed=on_confirmed,
            sample_when=lambda n: n in (1, 5, 25),
            confirm_refutation=confirm if job.get("expect", "confirmed") != "refuted" else None,
        )
        res = dict(ex.__dict__)
        res["counterexample"] = _jsonable(res["counterexample"])
        res["samples"] = samples
        post = getattr(mod, "post_check", None)
        if post is not None:
            post(job["func"], job.get("params") or {}, res, list(inst.LOG))
        res["log"] = _jsonable(inst.LOG[:40])
        res["log_len"] = len(inst.LOG)
    elif kind in ("smt", "concrete"):
        # function returns a dict: status (confirmed|refuted|unknown), plus details
        res = fn(**(job.get("params") or {}))
        res.setdefault("paths", 0)
    else:
        raise ValueError(kind)
    res["wall_s"] = round(time.time() - t0, 3)
    return res


def main() -> int:
    sys.setrecursionlimit(30000)
    import threading

    threading.stack_size(512 * 1024 * 1024)
    job = json.load(sys.stdin)
    try:
        res = run_job(job)
    except BaseException as e:  # noqa: BLE001 - report everything to the runner
        res = {
            "status": "error",
            "error": "%s: %s" % (type(e).__name__, e),
            "traceback": traceback.format_exc()[-4000:],
        }
    sys.stdout.write("\n@@RESULT@@" + json.dumps(res) + "\n")
    sys.stdout.flush()
    return 0


if __name__ == "__main__":
    sys.exit(main())
