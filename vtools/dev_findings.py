"""Development aid: (re)generate /verif/known_findings.json from the table below.  Never run by a check."""
import json
import os

V = os.path.dirname(os.path.dirname(os.path.abspath(__file__)))


def hole(q, mode):
    return {"module": "vtools.holes", "func": "h_hole", "params": {"prefix": q, "suffix": "", "k": 0, "mode": mode}, "args": {}}


F = []


def fixed(prop, fid, commit, what, witness):
    F.append({"status": "fixed", "property": prop, "id": fid, "commit": commit, "what": "fixed: property=%s %s %s" % (prop, commit, what), "witness": witness})


def known(prop, fid, cls, what, witness):
    F.append({"status": "known", "property": prop, "id": fid, "class": cls, "what": what, "witness": witness})


# ---- C06
fixed("C06", "bool-ordering", "ffd54aa", "booleans were ordered as 1/0: true < 2, false < true, 0.5 < true all held",
      {"module": "vtools.props.c06", "func": "r_compare", "args": {"a": True, "op": "<", "b": 2}})
fixed("C06", "bool-ordering-find", "ffd54aa", "$[?@.a < @.b] selected {a: false, b: true}",
      {"module": "vtools.props.c06", "func": "r_find", "args": {"lhs": "@.a", "op": "<", "rhs": "@.b", "A": False, "B": True}})
fixed("C06", "deep-eq-kinds", "8ad7693", "[1] == [true], {\"k\": 0} == {\"k\": false} and [[false]] == [[0]] held",
      {"module": "vtools.props.c06", "func": "r_compare", "args": {"a": [[False]], "op": "==", "b": [[0]]}})
fixed("C06", "deep-eq-kinds-obj", "8ad7693", "$[?@.a == @.b] selected {a: {k: true}, b: {k: 1}}",
      {"module": "vtools.props.c06", "func": "r_find", "args": {"lhs": "@.a", "op": "==", "rhs": "@.b", "A": {"k": True}, "B": {"k": 1}}})
# ---- C04
for fid, commit, q, what in [
    ("hyphen-shorthand", "0e160c5", "$.a-b", "$.a-b was accepted (name-char has no '-')"),
    ("slice-step-without-colon", "ef6befc", "$[1:2 3]", "$[1:2 3] and $[1:2-1] were accepted as slices with a step"),
    ("slice-step-without-colon-2", "ef6befc", "$[1:2-1]", "$[1:2-1] was accepted"),
    ("signed-leading-zero", "fa7c6b5", "$[?@.a==-01]", "$[?@.a==-01] and -01.5 were accepted"),
    ("paren-comparand-left", "ea4a44b", "$[?(@.a)==1]", "$[?(@.a)==1] was accepted"),
    ("paren-comparand-right", "ea4a44b", "$[?@.a==(1)]", "$[?@.a==(1)] was accepted"),
    ("negated-comparand", "ea4a44b", "$[?@.a==!1]", "$[?@.a==!1] was accepted"),
    ("not-binds-comparison", "ea4a44b", "$[?!@.a==1]", "$[?!@.a==1] was accepted"),
    ("chained-comparison", "ea4a44b", "$[?@.a==1==1]", "$[?@.a==1==1] and $[?@.a<1<2] were accepted"),
    ("double-not", "8712ab1", "$[?!!@.a]", "$[?!!@.a] was accepted"),
    ("negated-literal", "8712ab1", "$[?!1]", "$[?!1] was accepted"),
    ("call-trailing-comma", "c272091", "$[?count(@.a,)==1]", "$[?count(@.a,)==1] was accepted"),
]:
    fixed("C04", fid, commit, what, hole(q, "reject"))
# ---- C02
fixed("C02", "nested-root-scope", "8bec8e1", "'$' inside a filter nested in a relative query resolved against the outer filter's current child: $[?@[?$[0].a == @]] on [{b: false, a: null}] selected nothing",
      {"module": "vtools.props.c02", "func": "r_filter", "args": {"query": "$[?@[?$[0].a == @]]", "doc": [{"b": False, "a": None}]}})
fixed("C02", "bare-current-truthiness", "1a173fd", "$[?@] dropped children whose value is 0, false or "" (Python truthiness of the bare value)",
      {"module": "vtools.props.c02", "func": "r_filter", "args": {"query": "$[?@]", "doc": [0, False, "", None, [], {}]}})
# ---- C03
fixed("C03", "astral-shorthand", "0e160c5", "valid non-BMP member-name-shorthand ($.\U0001F600) was refused (RE_PROPERTY stopped at U+FFFF)", hole("$.\U0001F600", "accept"))
fixed("C03", "zero-with-exponent", "fa7c6b5", "the valid number literals 0e1 / 0E-2 were refused by the leading-zero test", hole("$[?@.a==0e1]", "accept"))
fixed("C03", "escaped-control", "1c29a0f", "\\u0000-\\u001f escapes were refused", hole("$['\\u0000\\u001f']", "accept"))
fixed("C03", "logical-arg-paren", "6de8b16", "a parenthesized or negated argument of a function call was a syntax error", {"module": "vtools.props.c05", "func": "r_typed", "args": {"query": "$[?fl((@.a || @.b))]", "sig": {"fl": [["L"], "L"]}}})
fixed("C03", "selector-comma-inside-call", "e0473b8", "a filter selector followed by another selector inside a query argument of a function call ($[?count(@[?@.a, ?@.b]) > 1]) was a syntax error: the lexer took the comma for an argument separator (found by a seeding sub-agent while probing the unchanged tree; now covered by the derivation sweep and three new seeds)",
      hole("$[?count(@[?@.a, ?@.b]) > 1]", "accept"))
# ---- C05
fixed("C05", "value-call-as-test-under-not", "8712ab1", "a ValueType call used as a test under '!' or beside '&&'/'||' compiled ($[?!length(@.a)])",
      {"module": "vtools.props.c05", "func": "r_typed", "args": {"query": "$[?!f(@.a)]", "sig": {"f": [["V"], "V"]}}})
fixed("C05", "value-call-as-test-in-or", "8712ab1", "$[?@.x || f(@.*)] with f: Logical -> Value compiled",
      {"module": "vtools.props.c05", "func": "r_typed", "args": {"query": "$[?@.x || f(@.*)]", "sig": {"f": [["L"], "V"]}}})
fixed("C05", "logical-param-rejects-logical-call", "8581119", "a LogicalType parameter refused a Logical/Nodes-typed call and a negation ($[?f(nn(@.*)) == 1], $[?f(!@.a)])",
      {"module": "vtools.props.c05", "func": "r_typed", "args": {"query": "$[?f(!@.a)]", "sig": {"f": [["L"], "L"]}}})
fixed("C05", "logical-param-rejects-nodes-call", "8581119", "f(nn(@.*)) with f: Logical -> Value, nn: Nodes -> Nodes was refused",
      {"module": "vtools.props.c05", "func": "r_typed", "args": {"query": "$[?f(nn(@.*)) == 1]", "sig": {"f": [["L"], "V"], "nn": [["N"], "N"]}}})
fixed("C05", "paren-argument", "6de8b16", "a parenthesized argument for a LogicalType parameter was a syntax error ($[?f((@.a))])",
      {"module": "vtools.props.c05", "func": "r_typed", "args": {"query": "$[?f((@.a))]", "sig": {"f": [["L"], "L"]}}})
# ---- C08
fixed("C08", "control-char-name-requery", "1c29a0f", "the normalized path of a member whose name contains U+0000-U+001F (other than \\b \\f \\n \\r \\t) was refused by the library's own parser",
      {"module": "vtools.props.c08", "func": "r_requery", "args": {"name": "\u0000\u0013"}})
# ---- C10
fixed("C10", "logical-param-gets-value", "129f2ff", "a LogicalType parameter received the selected value / nothing / a node list instead of true|false ($[?pl(@.a)] with a == 0 passed 0)",
      {"module": "vtools.props.c10", "func": "r_conv", "args": {"query": "$[?pl(@.a)]", "doc": [{"a": 0}, {"b": 1}]}})
fixed("C10", "nodes-param-on-scalar-child", "1a173fd", "count(@) / value(@) / a NodesType parameter on a scalar child received the bare value (TypeError/AttributeError)",
      {"module": "vtools.props.c10", "func": "r_conv", "args": {"query": "$[?pn(@)]", "doc": [0, "x", None]}})
# ---- C09
fixed("C09", "escaped-control", "1c29a0f", "$['\\u0000'] .. $['\\u001f'] were rejected although valid", {"module": "vtools.props.c09", "func": "r_hex", "args": {"digits": "0000"}})
fixed("C09", "escaped-control-1f", "1c29a0f", "$['\\u001F'] was rejected", {"module": "vtools.props.c09", "func": "r_hex", "args": {"digits": "001F"}})
# ---- C11
fixed("C11", "search-version1-flag", "a16ddc1", "search() alone passed regex.VERSION1 (set operators inside classes): search(@, '[a||b]') did not find '|' while match() did",
      {"module": "vtools.props.c11", "func": "r_dot", "args": {}})
# ---- C17
fixed("C17", "nondeterministic-not-exhaustive", "33d3940", "children queued 'for later' were appended to the end of the queue: for $..* on [[[0]],[1],[2]] permitted orderings (e.g. $[0][0] visited between $[1] and $[2]) were produced by no outcome of the random choices",
      {"module": "vtools.props.c17", "func": "r_exhaustive", "args": {"query": "$..*", "doc": "[[[0]], [1], [2]]"}})
# ---- C18
fixed("C18", "nondeterministic-depth-check", "6df72eb", "nondeterministic descent raised JSONPathRecursionError for data nested exactly max_recursion_depth deep on some random outcomes (scalars counted, '>=') and missed too-deep containers visited immediately",
      {"module": "vtools.props.c18", "func": "r_limit", "args": {"limit": 3, "doc": [[[1]]], "mode": "nondet", "tapes": 64}})
# ---- C20
fixed("C20", "cli-name-error-traceback", "51b8e2a", "an unknown function name (JSONPathNameError) escaped handle_path_command as a traceback",
      {"module": "vtools.props.c20", "func": "r_cli", "args": {"query": "$[?foo(@)]", "doc": "ascii"}})
fixed("C20", "cli-recursion-error-traceback", "51b8e2a", "JSONPathRecursionError (document deeper than the limit) escaped as a traceback",
      {"module": "vtools.props.c20", "func": "r_cli", "args": {"query": "$..*", "doc": "deep"}})
fixed("C20", "cli-undecodable-document", "51b8e2a", "a target document that is not valid UTF-8 ended in a UnicodeDecodeError traceback",
      {"module": "vtools.props.c20", "func": "r_cli", "args": {"query": "$", "doc": "not_utf8"}})
# ---- C12
fixed("C12", "negated-comparison-parens", "0cefc1d", "$[?!(@.a == 1)] was serialized as $[?!@['a'] == 1] (a different, invalid query); !(!@.a) as !!@['a']", hole("$[?!(@.a == 1)]", "roundtrip"))
fixed("C12", "double-negation-parens", "0cefc1d", "$[?!(!@.a)] was serialized as $[?!!@['a']]", hole("$[?!(!@.a)]", "roundtrip"))
fixed("C12", "float-exponent-fixpoint", "a6cc55e", "$[?@.a>0.5E21] -> 5e+20 -> 500000000000000000000: str() was not a fixpoint for floats printed without a fraction", hole("$[?@.a>0.5E21]", "roundtrip"))
# ---- C13
fixed("C13", "overflow-literal", "2f6bcae", "$[?@.a==1e400] raised OverflowError", hole("$[?@.a==1e400]", "total"))
fixed("C13", "count-on-scalar", "1a173fd", "$[?count(@) == 1] on a scalar child raised TypeError",
      {"module": "vtools.props.c13", "func": "r_eval", "args": {"query": "$[?count(@) == 1]", "doc": [True]}})
fixed("C13", "value-on-scalar", "1a173fd", "$[?value(@) == 1] on a string child raised AttributeError",
      {"module": "vtools.props.c13", "func": "r_eval", "args": {"query": "$[?value(@) == 1]", "doc": ["x"]}})
# ---- C19
fixed("C19", "position-from-token-text", "cb8249b", "line/column were computed from the token's own text: any error after a LF was reported on line 1",
      hole("$.a\n.b\n[?@.c ==\n =]", "position"))
fixed("C19", "type-error-token-positional", "ea4a44b", "'result of f() is not comparable' carried no token (it was passed positionally), so the error had no position",
      hole("$[?match(@.a,'x') == true]", "position"))

if __name__ == "__main__":
    with open(os.path.join(V, "known_findings.json"), "w") as fd:
        json.dump({"comment": "Genuine defects of jg-rp/python-jsonpath-rfc9535 found by the checks. status=fixed entries suppress nothing: their witness is replayed as a regression obligation on every run and reported as a violation if it fails again. status=known entries print a KNOWN-FINDING line while the witness still fails and exclude only their narrow class from the search. This file is never written at run time.",
                   "findings": F}, fd, indent=1, ensure_ascii=True)
    print(len(F), "findings")
