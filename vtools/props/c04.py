"""C04 — every string outside the RFC 9535 grammar is rejected by compile() (DESIGN §4 C04)."""
from __future__ import annotations

from vtools import holes
from vtools.corpus import ESCAPE_EDGE, HOT, SEEDS
from vtools.ref.selftest import oracle_selftest

INFO = {
    "explanation": "Differential symbolic execution: the query is a concrete prefix + k symbolic characters (each any Unicode scalar value, a z3 integer) + a concrete suffix; "
    "the real lexer/parser (compile()) and an independent recogniser written from the RFC 9535 ABNF run on the same symbolic text, and on every path where the recogniser says "
    "'not derivable' (or invalid) compile() must raise a JSONPathError. Holes are placed at every character position of a corpus of valid queries that uses every ABNF production "
    "(single-edit neighbours: insertion and replacement) and, with 2-3 characters, at the contexts where lax parsing is typical.",
    "functions": ["lex.* (all state functions, Lexer)", "tokens.TokenStream", "parse.Parser.* (all parse_* methods, _decode_string_literal, _unescape_string, _decode_escape_sequence)",
                  "environment.JSONPathEnvironment.compile/validate_function_extension_signature/check_well_typedness", "selectors.*.__init__", "segments.*.__init__", "query.JSONPathQuery.singular_query"],
    "bounds": {"quick": {"hole": "k=1 at every position (insert + replace) of the seed corpus; k=2 at the hot contexts", "characters": "all 1,112,064 scalar values per hole character"},
               "thorough": {"hole": "k=1 and k=2 at every position of the seed corpus; k=3 at the hot contexts", "characters": "all scalar values"}},
    "models": ["M3 lex.ESCAPES / env.function_extensions as equality-scan containers", "M6 repr() of symbolic text in error messages returns a placeholder",
               "int(str) kept symbolic for -?[0-9]+", "float modelled as real", "Parser._parse_hex_digits/_decode_hex_char replaced by arithmetic-only equivalents (proved equal by z3 in C09)"],
    "outside": ["strings that differ from every seed in 3 (thorough: 4) or more adjacent characters", "blank space inside the brackets of a singular query used as a comparand (RFC ABNF and prose disagree: asserted as don't-care)"],
    "assumptions": ["query strings are sequences of Unicode scalar values (no lone surrogates)"],
}


def selftest_oracle() -> int:
    return oracle_selftest()


SELFTESTS = [selftest_oracle]


def b1_impl_in_rfc(name: str):
    from vtools import b1

    return b1.run("impl_in_rfc", name)


def obligations(tier: str):
    from vtools import b1

    obls = []
    for name, _f in b1.obligations_impl_in_rfc():
        obls.append({"id": name, "kind": "smt", "func": "b1_impl_in_rfc", "params": {"name": name}, "timeout": 120})
    for i, (pre, suf) in enumerate(HOT):
        obls.append(holes.obligation("hot%02d.k1" % i, pre, suf, 1, "reject", 120))
        obls.append(holes.obligation("hot%02d.k2" % i, pre, suf, 2, "reject", 300))
        if tier == "thorough" and i % 3 == 0:
            obls.append(holes.obligation("hot%02d.k3" % i, pre, suf, 3, "reject", 1200))
    for j, (pre, suf) in enumerate(holes.hole_instances(SEEDS)):
        obls.append(holes.obligation("seed%04d.k1" % j, pre, suf, 1, "reject", 120))
        if tier == "thorough" and j % 2 == 0:
            obls.append(holes.obligation("seed%04d.k2" % j, pre, suf, 2, "reject", 600))
    for j, (pre, suf) in enumerate(ESCAPE_EDGE):
        obls.append(holes.obligation("esc%02d.k0" % j, pre, suf, 0, "both", 60))
        obls.append(holes.obligation("esc%02d.k1" % j, pre, suf, 1, "reject", 120))
        if tier == "thorough":
            obls.append(holes.obligation("esc%02d.k2" % j, pre, suf, 2, "reject", 900))
    obls.append(holes.obligation("reach", "$[1:2", "]", 1, "reject", 60))
    return obls
