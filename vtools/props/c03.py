"""C03 — every valid RFC 9535 query is accepted by compile() (DESIGN §4 C03)."""
from __future__ import annotations

from vtools import b1, holes
from vtools.corpus import HOT, SEEDS
from vtools.ref.selftest import oracle_selftest

BLANKS = [" ", "\t", "\n", "\r"]

INFO = {
    "explanation": "(A) Differential symbolic execution of compile() against the RFC 9535 reference recogniser on prefix + k symbolic characters + suffix, asserting on every path where the reference "
    "derives the string and finds it valid that compile() returns a query whose normal form equals the RFC reading (same segments, selectors, names, integers, literal values, operator grouping): "
    "holes at every position of the seed corpus, symbolic blank characters at every position (every optional-S position), and terminal-class instances (shorthand names, both quote styles, "
    "every escape form incl. \\uXXXX with 4 symbolic hex digits and surrogate pairs, int/frac/exp digits). (B1) z3 regex-inclusion obligations, generated from the lexer's live compiled patterns, "
    "that every string of the RFC lexical rules (member-name-shorthand, function-name, blank runs, int, number) of any length is matched by the corresponding token pattern.",
    "functions": ["lex.* (state functions, RE_PROPERTY, RE_INT, RE_FLOAT, RE_INDEX, RE_FUNCTION_NAME, RE_WHITESPACE)", "parse.Parser.*", "tokens.*", "environment.compile/check_well_typedness"],
    "bounds": {"quick": {"hole": "k=1 any char and k<=2 blanks at every seed position; terminal classes with 2-4 symbolic characters", "regex obligations": "strings of every length"},
               "thorough": {"hole": "k=2 any char and k<=3 blanks at every seed position; terminal classes with up to 4 symbolic characters", "regex obligations": "every length"}},
    "models": ["as C04; z3 character sort folded above U+2FFFF (exactness checked on the extracted patterns)"],
    "outside": ["valid queries further than k characters from every seed", "number literals whose value is not exactly representable are compared as doubles"],
    "assumptions": ["built-in function registry"],
}

TERMINALS = [
    # (prefix, suffix, k, tier)   tier "q" = quick and thorough, "t" = thorough only
    ("$.", "", 1, "q"), ("$.", "", 2, "q"), ("$.", "", 3, "t"), ("$..", "", 2, "q"), ("$.a", "", 2, "q"), ("$.", ".b", 2, "q"), ("$[?@.", "]", 2, "q"), ("$[?@.", "==1]", 2, "q"),
    ("$['", "']", 1, "q"), ("$['", "']", 2, "q"), ("$['", "']", 3, "t"), ('$["', '"]', 2, "q"), ('$["', '"]', 3, "t"), ("$['\\", "']", 1, "q"), ('$["\\', '"]', 1, "q"), ("$['a\\", "b']", 1, "q"),
    ("$['\\u00", "']", 2, "q"), ("$['\\u", "41']", 2, "q"), ('$["\\u', 'fF"]', 2, "q"), ("$['\\uD8", "\\uDC00']", 2, "q"), ("$['\\uD83D\\uDE", "']", 2, "q"), ("$['\\uD83D\\u", "00']", 2, "q"), ("$['\\u", "00\\uDC00']", 2, "q"),
    ("$['\\u", "']", 3, "t"), ("$['\\u", "']", 4, "t"), ('$["\\u', '"]', 4, "t"), ("$['\\uD83D\\u", "']", 4, "t"), ("$['\\u", "\\uDE00']", 4, "t"),
    ("$[?@.a=='", "']", 2, "q"), ('$[?@.a=="', '"]', 2, "q"), ("$[?@.a=='\\", "']", 1, "q"), ("$[?@.a=='\\u00", "']", 2, "q"), ("$[?@.a=='\\u", "']", 4, "t"),
    ("$[", "]", 2, "q"), ("$[", "]", 3, "t"), ("$[-", "]", 2, "q"), ("$[1:", "]", 2, "q"), ("$[", ":]", 2, "q"), ("$[::", "]", 2, "q"), ("$[1:2:", "]", 2, "q"),
    ("$[?@.a==", "]", 2, "q"), ("$[?@.a==", "]", 3, "t"), ("$[?@.a==-", "]", 2, "q"), ("$[?@.a==1.", "]", 2, "q"), ("$[?@.a==1e", "]", 2, "q"), ("$[?@.a==1.5e", "]", 2, "q"), ("$[?@.a==0", "]", 2, "q"), ("$[?@.a==-0", "]", 2, "q"), ("$[?@.a==1", "5]", 2, "q"),
    ("$[?", "(@.a)==1]", 3, "t"), ("$[?@.a", "@.b]", 2, "q"), ("$[?@.a", "1]", 2, "q"), ("$[?@.a ", " 1]", 2, "q"),
]


def selftest_oracle() -> int:
    return oracle_selftest()


SELFTESTS = [selftest_oracle]


def b1_rfc_in_impl(name: str):
    return b1.run("rfc_in_impl", name)


def b1_twin():
    return b1.vacuity_twin()


def c_sweep(**kw):
    return holes.c_sweep(**kw)


def selftest_derivations() -> int:
    """Second oracle self-test: everything the derivation generator emits is valid for the reference recogniser."""
    from vtools import derive
    from vtools.ref.grammar import ref_verdict

    qs = derive.corpus(2)
    for q in qs:
        assert ref_verdict(q) == "valid", q
    assert len(qs) > 300
    return len(qs)


SELFTESTS.append(selftest_derivations)


def obligations(tier: str):
    obls = []
    for ch in range(4):
        obls.append({"id": "derive.both.chunk%d" % ch, "kind": "concrete", "func": "c_sweep", "params": {"mode": "both", "depth": 2 if tier == "quick" else 3, "chunk": ch, "nchunks": 4}, "timeout": 600})
    for name, _f in b1.obligations_rfc_in_impl():
        obls.append({"id": name, "kind": "smt", "func": "b1_rfc_in_impl", "params": {"name": name}, "timeout": 120})
    obls.append({"id": "b1.twin", "kind": "smt", "func": "b1_twin", "timeout": 60, "expect": "refuted"})
    for i, (pre, suf, k, tr) in enumerate(TERMINALS):
        if tr == "q" or tier == "thorough":
            obls.append(holes.obligation("term%02d.k%d" % (i, k), pre, suf, k, "accept", 300 if tier == "quick" else 1500))
    for j, (pre, suf) in enumerate(holes.hole_instances(SEEDS)):
        obls.append(holes.obligation("seed%04d.k1" % j, pre, suf, 1, "accept", 120))
        if tier == "thorough" and j % 2 == 1:
            obls.append(holes.obligation("seed%04d.k2" % j, pre, suf, 2, "accept", 600))
    for j, (pre, suf) in enumerate(holes.hole_instances(SEEDS, replace=(0,))):
        obls.append(holes.obligation("blank%04d.b1" % j, pre, suf, 1, "both", 120, alphabet=BLANKS))
        if tier == "thorough":
            obls.append(holes.obligation("blank%04d.b2" % j, pre, suf, 2, "both", 300, alphabet=BLANKS))
            if j % 3 == 0:
                obls.append(holes.obligation("blank%04d.b3" % j, pre, suf, 3, "both", 600, alphabet=BLANKS))
    return obls
