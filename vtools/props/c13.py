"""C13 — compile() and find() are total: they return or raise a JSONPathError (DESIGN §4 C13)."""
from __future__ import annotations

from typing import Union

import jsonpath_rfc9535 as jp
from jsonpath_rfc9535.exceptions import JSONPathError

from vtools import hcommon, holes
from vtools.corpus import ESCAPE_EDGE, HOT, SEEDS
from vtools.inst import P, assume

INFO = {
    "explanation": "Symbolic execution of compile() on prefix + k symbolic characters + suffix (no oracle needed: the postcondition is 'returns, or raises a JSONPathError whose str() can be produced'), "
    "for holes at every position of the seed corpus, inside deeply nested and very long (up to 1024 characters) structured queries; and of find() for a pool of filter/function queries on symbolic "
    "documents with every JSON kind as root and as the child under test.",
    "functions": ["lex.*", "tokens.*", "parse.Parser.*", "environment.JSONPathEnvironment.compile", "exceptions.JSONPathError.__str__", "tokens.Token.position",
                  "query.JSONPathQuery.find", "segments.*.resolve", "selectors.*.resolve", "filter_expressions.*.evaluate", "function_extensions.length/count/value/match/search.__call__"],
    "bounds": {"quick": {"hole": "k=1 everywhere, k=2 at hot contexts and in nesting/long seeds", "nesting": "<= 32", "length": "<= 1024 (structured repetition)", "documents": "root/child of every kind, <= 2 children"},
               "thorough": {"hole": "k=2 everywhere, k=3 at hot contexts", "nesting": "<= 32", "length": "<= 1024", "documents": "depth 2, width 2"}},
    "models": ["as C04", "match/search: the foreign regex engines run concretely on realized arguments (CrossHair realizes at the C boundary); patterns in the pool are concrete or members of the document (any JSON kind)", "M11 functools.lru_cache: cache skipped (CrossHair), unhashable arguments refused with TypeError as the real wrapper does"],
    "outside": ["inputs that are not within k characters of a seed", "recursion limits (C18)"],
    "assumptions": ["JSON values as json.load produces them minus NaN/inf"],
}

EVAL_POOL = [
    "$[?@]", "$[?@.a]", "$[?!@.a]", "$[?@ == 1]", "$[?@.a < @.b]", "$[?length(@) == 1]", "$[?length(@.a) >= 0]", "$[?count(@) == 1]", "$[?count(@.*) > 1]",
    "$[?value(@) == 1]", "$[?value(@.*) == 'a']", "$[?match(@, 'a.')]", "$[?search(@.a, 'a')]", "$[?match(@.a, @.b)]", "$[?@[0] == @['a']]", "$[?@[?@ == 1]]",
    "$..*", "$..[?@.a]", "$[?$[0] == @]", "$[?length(value(@.*)) == 1]", "$[?count(@..*) == 2]", "$[?@ <= 'a' || @ >= 1.5]", "$[?@[1:] && @[-1]]", "$[-1:]", "$['a', 0, *]",
]
_COMPILED = {}


def ch_setup() -> None:
    hcommon.install_text_models()


def h_eval() -> Union[bool, str]:
    """find() completes or raises a JSONPathError for a symbolic document (root kind and child kinds symbolic per instance)."""
    q = P["query"]
    c = _COMPILED.get(q)
    if c is None:
        c = _COMPILED[q] = jp.compile(q)
    doc = hcommon.sym_json("d", P.get("depth", 1), P.get("width", 2), kind=P.get("rootkind"), strlen=1)
    try:
        nodes = c.find(doc)
    except JSONPathError as e:
        str(e)
        return True
    for n in nodes:
        n.path()
    return True


PAIR_POOL = ["$[?@.a == @.b]", "$[?@.a != @.b]", "$[?@.a <= @.b]", "$[?@[0] >= @[1]]", "$[?@.a == $[0].b]", "$[?value(@.*) == @.a]",
             # function arguments of every JSON kind, containers included (added after seeded change C13-r3: an lru_cache in
             # front of match()'s type guard hashed an array pattern)
             "$[?match(@.a, @.b)]", "$[?search(@.a, @.b)]", "$[?match(@[0], @[1])]", "$[?length(@.a) == length(@.b)]"]


def h_eval_pair() -> Union[bool, str]:
    """Both comparands are symbolic containers / scalars of any kind (members of the child under test)."""
    q = P["query"]
    c = _COMPILED.get(q)
    if c is None:
        c = _COMPILED[q] = jp.compile(q)
    x = hcommon.sym_json("x", 1, 2, kind=P.get("xkind"), leaf_kind=2, strlen=1, names=["a", "b"])
    y = hcommon.sym_json("y", 1, 2, kind=P.get("ykind"), leaf_kind=2, strlen=1, names=["a", "b"])
    doc = [{"a": x, "b": y}, [x, y]]
    try:
        for n in c.find(doc):
            n.path()
    except JSONPathError as e:
        str(e)
    return True


def nesting_seeds():
    out = []
    for n in (4, 16, 32):
        out.append(("$[?" + "(" * n + "@.a", ")" * n + "]"))
        out.append(("$" + "[?@" * n + ".a", "]" * n))
        out.append(("$[?" + "!(" * n + "@.a", ")" * n + "]"))
        out.append(("$[?length(" * 1 + "value(" * n + "@.a", ")" * n + ")==1]"))
    return out


def long_seeds():
    return [
        ("$" + " " * 500, " " * 500 + ".a"),
        ("$." + "a" * 1000, ""),
        ("$[" + "1" * 500, "1" * 500 + "]"),
        ("$[?@.a==" + "1" * 300 + ".", "1" * 300 + "e" + "1" * 300 + "]"),
        ("$['" + "\\n" * 250, "\\n" * 250 + "']"),
        ("$" + ".a" * 250, ".b" * 250),
        ("$[" + "0," * 250, "0" + ",0" * 250 + "]"),
        ("$[?" + "@.a&&" * 100, "@.b" + "||@.c" * 100 + "]"),
    ]


NUMERIC_EDGE = [("$[?@.a==1e40", "]"), ("$[?@.a==1e30", "]"), ("$[?@.a==-1.5e30", "]"), ("$[?@.a==1e-40", "]"), ("$[?@.a==1E+30", "]"), ("$[", "9007199254740991]"), ("$[900719925474099", "]"),
                ("$[:-900719925474099", "]"), ("$[?@.a==" + "9" * 308, "]")]

SELFTESTS = []


def c_sweep(**kw):
    return holes.c_sweep(**kw)


def selftest_derivations() -> int:
    """Second oracle self-test: everything the derivation generator emits is valid for the reference recogniser."""
    from vtools import derive
    from vtools.ref.grammar import ref_verdict

    qs = derive.corpus(2)
    for q in qs:
        assert ref_verdict(q) == "valid", q
    assert len(qs) > 300
    return len(qs)


def obligations(tier: str):
    obls = []
    for ch in range(4):
        obls.append({"id": "derive.total.chunk%d" % ch, "kind": "concrete", "func": "c_sweep", "params": {"mode": "total", "depth": 2 if tier == "quick" else 3, "chunk": ch, "nchunks": 4}, "timeout": 600})
    for i, (pre, suf) in enumerate(HOT):
        obls.append(holes.obligation("hot%02d.k2" % i, pre, suf, 2, "total", 300))
        if tier == "thorough":
            if i % 3 == 1:
                obls.append(holes.obligation("hot%02d.k3" % i, pre, suf, 3, "total", 1200))
    for j, (pre, suf) in enumerate(holes.hole_instances(SEEDS)):
        obls.append(holes.obligation("seed%04d.k1" % j, pre, suf, 1, "total", 120))
        if tier == "thorough" and j % 2 == 0:
            obls.append(holes.obligation("seed%04d.k2" % j, pre, suf, 2, "total", 600))
    for j, (pre, suf) in enumerate(ESCAPE_EDGE):
        obls.append(holes.obligation("esc%02d.k1" % j, pre, suf, 1, "total", 120))
        obls.append(holes.obligation("esc%02d.k2" % j, pre, suf, 2, "total", 300))
    for j, (pre, suf) in enumerate(NUMERIC_EDGE):
        obls.append(holes.obligation("num%02d.k1" % j, pre, suf, 1, "total", 300))
    for j, (pre, suf) in enumerate(nesting_seeds()):
        obls.append(holes.obligation("nest%02d.k1" % j, pre, suf, 1, "total", 300))
        obls.append(holes.obligation("nest%02d.k2" % j, pre, suf, 2, "total", 600))
    for j, (pre, suf) in enumerate(long_seeds()):
        obls.append(holes.obligation("long%02d.k1" % j, pre, suf, 1, "total", 600))
        if tier == "thorough":
            if j < 3:
                obls.append(holes.obligation("long%02d.k2" % j, pre, suf, 2, "total", 1200))
    for qi, q in enumerate(PAIR_POOL):
        for xk in (4, 5, 6):
            for yk in (5, 6):
                obls.append({"id": "pair%02d.%s.%s" % (qi, hcommon.KIND_NAMES[xk], hcommon.KIND_NAMES[yk]), "func": "h_eval_pair", "params": {"query": q, "xkind": xk, "ykind": yk}, "timeout": 300})
    for qi, q in enumerate(EVAL_POOL):
        for rk in range(7):
            obls.append({"id": "eval%02d.root-%s" % (qi, hcommon.KIND_NAMES[rk]), "func": "h_eval", "params": {"query": q, "rootkind": rk, "depth": 1 if tier == "quick" else 2, "width": 2}, "timeout": 200 if tier == "quick" else 900})
    return obls


def r_eval(query, doc):
    """Concrete replay: find() completes or raises a JSONPathError."""
    try:
        for n in jp.find(query, doc):
            n.path()
    except JSONPathError as e:
        str(e)
    return True
