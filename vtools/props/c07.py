"""C07 — index and slice selectors implement RFC 9535 array arithmetic (DESIGN §4 C07)."""
from __future__ import annotations

from typing import Dict, List, Optional, Union

from jsonpath_rfc9535 import JSONPathEnvironment
from jsonpath_rfc9535.node import JSONPathNode
from jsonpath_rfc9535.selectors import IndexSelector, SliceSelector
from jsonpath_rfc9535.tokens import Token, TokenType

from vtools import models
from vtools.inst import P, assume
from vtools.ref.slices import ref_index, ref_slice

ENV = JSONPathEnvironment()
TOK = Token(TokenType.INDEX, "0", 2, "$[0]")
LIM = 2**53 - 1

INFO = {
    "explanation": "Symbolic execution (CrossHair+z3) of the real IndexSelector/SliceSelector code over arrays of bounded length with every integer "
    "parameter an unbounded solver variable, against the RFC 9535 normalize/bounds/iterate procedure; plus direct z3 obligations, generated from the "
    "source of _normalized_index and from the slice.indices model, that hold for every array length.",
    "functions": ["selectors.IndexSelector.__init__", "selectors.IndexSelector._normalized_index", "selectors.IndexSelector.resolve", "selectors.SliceSelector.__init__",
                  "selectors.SliceSelector._check_range", "selectors.SliceSelector.resolve", "node.JSONPathNode.new_child", "parse.Parser.parse_slice", "parse.Parser.parse_bracketed_selection",
                  "lex.lex_inside_bracketed_segment"],
    "bounds": {"quick": {"array_length": "0..4 (CrossHair), unbounded (z3 obligations)", "ints": "any int in +/-(2^53-1), each slice part present or omitted", "numerals": "<= 2 digits + sign"},
               "thorough": {"array_length": "0..6 (CrossHair), unbounded (z3 obligations)", "ints": "any int in +/-(2^53-1)", "numerals": "<= 3 digits + sign"}},
    "models": ["M1 slice.indices -> vtools.models.slice_indices (validated on a 20^3 x 8 grid each run)", "M2 list subscript -> vtools.models.ModelList (same grid)"],
    "outside": ["arrays longer than the bound for the CrossHair obligations (the z3 obligations on bounds are length-unbounded)", "CPython's C implementation of slice.indices itself is represented by model M1"],
    "assumptions": ["array elements only matter by identity/position, so they are symbolic ints", "integers lie in the I-JSON range the constructors enforce"],
}


def ch_setup() -> None:
    from vtools import chpatches

    chpatches.install()


def _arr(n: int, e0: int, e1: int, e2: int, e3: int, e4: int, e5: int):
    elems = [e0, e1, e2, e3, e4, e5]
    return models.ModelList(elems[:n]) if isinstance(n, int) and type(n) is int else None


def _pairs(nodes) -> list:
    return [(x.location, x.value) for x in nodes]


# ------------------------------------------------------------------ Engine A harnesses
def h_index(idx: int, e0: int, e1: int, e2: int, e3: int, e4: int, e5: int) -> Union[bool, str]:
    n = P["n"]
    assume(-LIM <= idx <= LIM)
    arr = models.ModelList([e0, e1, e2, e3, e4, e5][:n])
    sel = IndexSelector(env=ENV, token=TOK, index=idx)
    root = {"k": arr}
    node = JSONPathNode(value=arr, location=("k",), root=root)
    got = _pairs(sel.resolve(node))
    j = ref_index(n, idx)
    exp = [] if j is None else [(("k", j), list.__getitem__(arr, j))]
    if got != exp:
        return "index %r on length %r: got %r expected %r" % (idx, n, got, exp)
    for loc, _v in got:
        if not (isinstance(loc[-1], int) and loc[-1] >= 0):
            return "negative location"
    return True


def h_slice(start: Optional[int], end: Optional[int], step: Optional[int], e0: int, e1: int, e2: int, e3: int, e4: int, e5: int) -> Union[bool, str]:
    n = P["n"]
    assume(start is None or -LIM <= start <= LIM)
    assume(end is None or -LIM <= end <= LIM)
    assume(step is None or -LIM <= step <= LIM)
    arr = models.ModelList([e0, e1, e2, e3, e4, e5][:n])
    sel = SliceSelector(env=ENV, token=TOK, start=start, stop=end, step=step)
    node = JSONPathNode(value=arr, location=(), root=arr)
    got = _pairs(sel.resolve(node))
    exp = [((j,), list.__getitem__(arr, j)) for j in ref_slice(n, start, end, step)]
    if got != exp:
        return "slice %r:%r:%r on length %r: got %r expected %r" % (start, end, step, n, got, exp)
    return True


def h_reach_slice(start: Optional[int], end: Optional[int], step: Optional[int], e0: int, e1: int, e2: int, e3: int, e4: int, e5: int) -> bool:
    """Reachability twin: must be refuted (some slice selects >= 2 elements in reverse)."""
    n = P["n"]
    assume(step is not None and step < 0)
    arr = models.ModelList([e0, e1, e2, e3, e4, e5][:n])
    sel = SliceSelector(env=ENV, token=TOK, start=start, stop=end, step=step)
    got = _pairs(sel.resolve(JSONPathNode(value=arr, location=(), root=arr)))
    return len(got) < 2


def h_nonarray(idx: int, start: Optional[int], end: Optional[int], step: Optional[int], i: int, s: str, f: float, b: bool, d: Dict[str, int]) -> Union[bool, str]:
    """Neither selector matches objects or scalars."""
    assume(-LIM <= idx <= LIM)
    assume(start is None or -LIM <= start <= LIM)
    assume(end is None or -LIM <= end <= LIM)
    assume(step is None or -LIM <= step <= LIM)
    kind = P["kind"]
    assume(len(s) <= 2 and len(d) <= 2)
    v: object
    if kind == 0:
        v = None
    elif kind == 1:
        v = b
    elif kind == 2:
        v = i
    elif kind == 3:
        v = f
    elif kind == 4:
        v = s
    else:
        v = d
    node = JSONPathNode(value=v, location=(), root=v)
    if list(IndexSelector(env=ENV, token=TOK, index=idx).resolve(node)):
        return "index selector matched a non-array"
    if list(SliceSelector(env=ENV, token=TOK, start=start, stop=end, step=step).resolve(node)):
        return "slice selector matched a non-array"
    return True


class _Env(JSONPathEnvironment):
    pass


GENV = _Env()


def _bounds(lo: int, hi: int):
    assume(-(2**54) <= lo <= hi <= 2**54)
    GENV.min_int_index = lo
    GENV.max_int_index = hi
    return GENV


def h_guard_index(lo: int, hi: int, idx: int) -> Union[bool, str]:
    """IndexSelector(...) raises JSONPathIndexError iff idx is outside the environment's [lo, hi] (shared with C05)."""
    from jsonpath_rfc9535.exceptions import JSONPathIndexError

    env = _bounds(lo, hi)
    try:
        sel = IndexSelector(env=env, token=TOK, index=idx)
        raised = False
    except JSONPathIndexError:
        raised = True
    if raised != (idx < lo or idx > hi):
        return "IndexSelector guard wrong for %r in [%r,%r]" % (idx, lo, hi)
    return True if raised or sel.index == idx else "index field differs"


def h_guard_slice(lo: int, hi: int, start: Optional[int], end: Optional[int], step: Optional[int]) -> Union[bool, str]:
    from jsonpath_rfc9535.exceptions import JSONPathIndexError

    env = _bounds(lo, hi)
    try:
        sel = SliceSelector(env=env, token=TOK, start=start, stop=end, step=step)
        raised = False
    except JSONPathIndexError:
        raised = True
    exp = False
    for x in (start, end, step):
        if x is not None and (x < lo or x > hi):
            exp = True
    if raised != exp:
        return "SliceSelector guard wrong for %r:%r:%r in [%r,%r]" % (start, end, step, lo, hi)
    if not raised and (sel.slice.start, sel.slice.stop, sel.slice.step) != (start, end, step):
        return "slice fields differ"
    return True


def _numeral(neg: bool, nd: int, d0: int, d1: int, d2: int) -> str:
    ds = [d0, d1, d2][:nd]
    return ("-" if neg else "") + "".join(chr(48 + d) for d in ds)


def _numeral_value(s: str) -> Optional[int]:
    """RFC int = "0" / (["-"] DIGIT1 *DIGIT); None when not an RFC int."""
    body = s[1:] if s[:1] == "-" else s
    if body == "":
        return None
    if body[0] == "0":
        return 0 if (s == "0") else None
    v = 0
    for ch in body:
        v = v * 10 + (ord(ch) - 48)
    return -v if s[0] == "-" else v


def h_parse(n1: bool, k1: int, a0: int, a1: int, a2: int, n2: bool, k2: int, b0: int, b1: int, b2: int, n3: bool, k3: int, c0: int, c1: int, c2: int) -> Union[bool, str]:
    """Spelling -> selector fields through the real lexer+parser; leading zeros and -0 rejected.

    form bits: 1=start present, 2=end present, 4=second colon present, 8=step present; form==16: index selector.
    """
    import jsonpath_rfc9535 as jp
    from jsonpath_rfc9535.exceptions import JSONPathError

    maxd = P["digits"]
    form = P["form"]
    used = (form == 16 or bool(form & 1), form != 16 and bool(form & 2), form != 16 and bool(form & 8))
    s1 = s2 = s3 = ""
    fixed = P.get("fixed") or {}
    if "0" in fixed:
        s1, used = fixed["0"], (False, used[1], used[2])
    if "1" in fixed:
        s2, used = fixed["1"], (used[0], False, used[2])
    if "2" in fixed:
        s3, used = fixed["2"], (used[0], used[1], False)
    if used[0]:
        assume(1 <= k1 <= maxd and 0 <= a0 <= 9 and 0 <= a1 <= 9 and 0 <= a2 <= 9)
        s1 = _numeral(n1, k1, a0, a1, a2)
    if used[1]:
        assume(1 <= k2 <= maxd and 0 <= b0 <= 9 and 0 <= b1 <= 9 and 0 <= b2 <= 9)
        s2 = _numeral(n2, k2, b0, b1, b2)
    if used[2]:
        assume(1 <= k3 <= maxd and 0 <= c0 <= 9 and 0 <= c1 <= 9 and 0 <= c2 <= 9)
        s3 = _numeral(n3, k3, c0, c1, c2)
    if form == 16:
        q = "$[" + s1 + "]"
        v = _numeral_value(s1)
        try:
            c = jp.compile(q)
        except JSONPathError:
            return True if v is None else "valid index %r rejected" % (q,)
        if v is None:
            return "invalid index spelling %r accepted" % (q,)
        sel = c.segments[0].selectors[0]
        return True if (isinstance(sel, IndexSelector) and sel.index == v) else "index %r parsed as %r" % (q, sel)
    parts = []
    vals: List[Optional[int]] = [None, None, None]
    ok = True
    q = "$["
    if form & 1:
        q += s1
        vals[0] = _numeral_value(s1)
        ok = ok and vals[0] is not None
    q += ":"
    if form & 2:
        q += s2
        vals[1] = _numeral_value(s2)
        ok = ok and vals[1] is not None
    if form & 4:
        q += ":"
        if form & 8:
            q += s3
            vals[2] = _numeral_value(s3)
            ok = ok and vals[2] is not None
    q += "]"
    try:
        c = jp.compile(q)
    except JSONPathError:
        return True if not ok else "valid slice %r rejected" % (q,)
    if not ok:
        return "invalid slice spelling %r accepted" % (q,)
    sel = c.segments[0].selectors[0]
    if not isinstance(sel, SliceSelector):
        return "slice %r parsed as %r" % (q, sel)
    got = (sel.slice.start, sel.slice.stop, sel.slice.step)
    return True if got == tuple(vals) else "slice %r parsed as %r" % (q, got)


def selftest_models() -> int:
    return models.validate_slice_models()


def selftest_ref() -> int:
    """The RFC's own slice examples (RFC 9535 table 9) and index examples through the reference."""
    a = ["a", "b", "c", "d", "e", "f", "g"]
    cases = [((1, 3, None), ["b", "c"]), ((5, None, None), ["f", "g"]), ((1, 5, 2), ["b", "d"]), ((5, 1, -2), ["f", "d"]), ((None, None, -1), ["g", "f", "e", "d", "c", "b", "a"])]
    for (s, e, t), exp in cases:
        assert [a[i] for i in ref_slice(len(a), s, e, t)] == exp
    assert ref_index(2, 1) == 1 and ref_index(2, -2) == 0 and ref_index(2, 2) is None and ref_index(2, -3) is None
    # and the reference agrees with Python slicing on a grid (independent formulation)
    import itertools

    n = 0
    vals = [None] + list(range(-7, 8))
    for ln in range(6):
        base = list(range(ln))
        for s, e, t in itertools.product(vals, vals, vals):
            exp = [] if t == 0 else base[slice(s, e, t)]
            assert ref_slice(ln, s, e, t) == exp, (ln, s, e, t)
            n += 1
    return n + len(cases)


SELFTESTS = [selftest_models, selftest_ref]


def obligations(tier: str):
    nmax = 4 if tier == "quick" else 6
    t = 120 if tier == "quick" else 600
    obls = []
    for n in range(nmax + 1):
        obls.append({"id": "index.n%d" % n, "func": "h_index", "params": {"n": n}, "timeout": t})
        obls.append({"id": "slice.n%d" % n, "func": "h_slice", "params": {"n": n}, "timeout": t})
    obls.append({"id": "slice.reach", "func": "h_reach_slice", "params": {"n": 3}, "timeout": 60, "expect": "refuted"})
    for kind, nm in enumerate(["null", "bool", "int", "float", "str", "object"]):
        obls.append({"id": "nonarray." + nm, "func": "h_nonarray", "params": {"kind": kind}, "timeout": t})
    obls.append({"id": "guard.index", "func": "h_guard_index", "timeout": t})
    obls.append({"id": "guard.slice", "func": "h_guard_slice", "timeout": t})
    for fn in ("b2_normalized_index", "b2_slice_bounds", "b2_guards"):
        obls.append({"id": "smt." + fn, "kind": "smt", "func": fn, "timeout": 120})
    dg = 2 if tier == "quick" else 3
    for form in [0, 1, 2, 3, 4, 5, 6, 7, 12, 13, 14, 16]:
        obls.append({"id": "parse.form%d.d%d" % (form, dg), "func": "h_parse", "params": {"digits": dg, "form": form}, "timeout": t})
    if tier == "quick":  # three numerals: two symbolic at a time, the third a fixed representative
        for pos, val in (("0", "3"), ("1", "-4"), ("2", "2")):
            obls.append({"id": "parse.form15.fix%s.d%d" % (pos, dg), "func": "h_parse", "params": {"digits": dg, "form": 15, "fixed": {pos: val}}, "timeout": t})
    else:
        obls.append({"id": "parse.form15.d2", "func": "h_parse", "params": {"digits": 2, "form": 15}, "timeout": 1200})
    return obls


# ------------------------------------------------------------------ Engine B2 obligations (unbounded array length)
def _z3mod():
    import z3

    return z3


def b2_normalized_index():
    """For all n >= 0 and all i: when the RFC selects a position, _normalized_index returns exactly it, and it is >= 0."""
    z3 = _z3mod()
    from types import SimpleNamespace

    from vtools.smt import kernel2z3 as k

    i, n = z3.Ints("i n")

    class Obj:
        def z3_len(self):
            return n

    try:
        it = k.Interp(IndexSelector._normalized_index)
        outs = it.run(SimpleNamespace(index=i), Obj())
    except k.Unsupported as e:
        return {"status": "unknown", "notes": ["kernel not translatable: %s" % e]}
    queries = []
    in_range = z3.And(i >= -n, i < n)
    rfc_pos = z3.If(i >= 0, i, n + i)
    claim = z3.Implies(z3.And(n >= 0, in_range), k.outcome_guard(outs, "return", lambda v: z3.And(v == rfc_pos, v >= 0)))
    r, m, dt = k.prove(claim)
    queries.append({"claim": "n>=0 & -n<=i<n  =>  _normalized_index(i,n) == (i if i>=0 else n+i) >= 0", "result": r, "s": round(dt, 4)})
    if r == "sat":
        return {"status": "refuted", "queries": queries, "failure": "normalized index wrong", "replay_module": "vtools.props.c07", "replay_func": "r_index",
                "replay_args": {"idx": m.eval(i, True).as_long(), "n": m.eval(n, True).as_long()}}
    total = k.prove(z3.Implies(n >= 0, k.Or(k.outcome_guard(outs, "return"), False)))
    queries.append({"claim": "never raises for n>=0", "result": total[0], "s": round(total[2], 4)})
    ok = r == "unsat" and total[0] == "unsat"
    return {"status": "confirmed" if ok else "unknown", "queries": queries, "solver_checks": 2, "solver_s": round(dt + total[2], 4), "paths": len(outs), "confirmed_paths": len(outs)}


def r_index(idx: int, n: int):
    """Replay for b2 counterexamples: a concrete array of length n through the public API."""
    import jsonpath_rfc9535 as jp

    assume(0 <= n <= 10**6)
    arr = list(range(n))
    sel = IndexSelector(env=ENV, token=TOK, index=idx)
    got = _pairs(sel.resolve(JSONPathNode(value=arr, location=(), root=arr)))
    j = ref_index(n, idx)
    exp = [] if j is None else [((j,), arr[j])]
    return True if got == exp else "index %r on length %r: got %r expected %r" % (idx, n, got, exp)


def r_slice(n: int, start=None, end=None, step=None):
    assume(0 <= n <= 10**6)
    arr = list(range(n))
    sel = SliceSelector(env=ENV, token=TOK, start=start, stop=end, step=step)
    got = _pairs(sel.resolve(JSONPathNode(value=arr, location=(), root=arr)))
    exp = [((j,), arr[j]) for j in ref_slice(n, start, end, step)]
    return True if got == exp else "slice %r:%r:%r on length %r: got %r expected %r" % (start, end, step, n, got[:5], exp[:5])


def b2_slice_bounds():
    """For all n >= 0 and all start/end/step (present or omitted, step != 0): slice.indices (model M1, translated
    from its source) gives exactly the RFC 9535 lower/upper bounds, so range(*indices) iterates the RFC positions."""
    z3 = _z3mod()
    import itertools
    from types import SimpleNamespace

    from vtools.smt import kernel2z3 as k

    n, a, b, c = z3.Ints("n start end step")
    queries = []
    tot = 0.0
    for pa, pb, pc in itertools.product([False, True], repeat=3):
        sl = SimpleNamespace(start=a if pa else None, stop=b if pb else None, step=c if pc else None)
        try:
            outs = k.Interp(models.slice_indices).run(sl, n)
        except k.Unsupported as e:
            return {"status": "unknown", "notes": ["model not translatable: %s" % e]}
        step = c if pc else z3.IntVal(1)
        st = (a if pa else z3.If(step >= 0, z3.IntVal(0), n - 1))
        en = (b if pb else z3.If(step >= 0, n, -n - 1))
        ns = z3.If(st >= 0, st, n + st)
        ne = z3.If(en >= 0, en, n + en)

        def zmin(x, y):
            return z3.If(x <= y, x, y)

        def zmax(x, y):
            return z3.If(x >= y, x, y)

        lower_pos, upper_pos = zmin(zmax(ns, 0), n), zmin(zmax(ne, 0), n)
        upper_neg, lower_neg = zmin(zmax(ns, -1), n - 1), zmin(zmax(ne, -1), n - 1)
        good = k.outcome_guard(
            outs, "return",
            lambda v: z3.And(v[2] == step, z3.If(step > 0, z3.And(v[0] == lower_pos, v[1] == upper_pos), z3.And(v[0] == upper_neg, v[1] == lower_neg))),
        )
        claim = z3.Implies(z3.And(n >= 0, step != 0), good)
        r, m, dt = k.prove(claim)
        tot += dt
        queries.append({"claim": "present(start,end,step)=%s: indices == RFC bounds for all n>=0" % ((pa, pb, pc),), "result": r, "s": round(dt, 4)})
        if r == "sat":
            args = {"n": m.eval(n, True).as_long()}
            if pa:
                args["start"] = m.eval(a, True).as_long()
            if pb:
                args["end"] = m.eval(b, True).as_long()
            if pc:
                args["step"] = m.eval(c, True).as_long()
            return {"status": "refuted", "queries": queries, "failure": "slice bounds differ from RFC", "replay_module": "vtools.props.c07", "replay_func": "r_slice", "replay_args": args}
        if r != "unsat":
            return {"status": "unknown", "queries": queries}
    return {"status": "confirmed", "queries": queries, "solver_checks": len(queries), "solver_s": round(tot, 4), "paths": len(queries), "confirmed_paths": len(queries)}


def b2_guards():
    """IndexSelector.__init__ / SliceSelector._check_range raise iff a present component lies outside [lo, hi], for all ints."""
    z3 = _z3mod()
    import itertools
    from types import SimpleNamespace

    from vtools.smt import kernel2z3 as k

    lo, hi, i, a, b, c = z3.Ints("lo hi i a b c")
    env = SimpleNamespace(min_int_index=lo, max_int_index=hi)
    queries = []
    tot = 0.0
    try:
        outs = k.Interp(IndexSelector.__init__).run(SimpleNamespace(), env=env, token=None, index=i)
    except k.Unsupported as e:
        return {"status": "unknown", "notes": ["IndexSelector.__init__ not translatable: %s" % e]}
    raises = k.outcome_guard(outs, "raise", lambda nm: nm == "JSONPathIndexError")
    other = k.outcome_guard(outs, "raise", lambda nm: nm != "JSONPathIndexError")
    r, m, dt = k.prove(z3.And(raises == z3.Or(i < lo, i > hi), z3.Not(other) if other is not False else True), assumptions=[lo <= hi])
    tot += dt
    queries.append({"claim": "IndexSelector(index=i) raises JSONPathIndexError <=> i<lo or i>hi (all ints)", "result": r, "s": round(dt, 4)})
    if r != "unsat":
        return {"status": "unknown" if r != "sat" else "refuted", "queries": queries, "failure": "index guard", "replay_module": "vtools.props.c07", "replay_func": "r_guard",
                "replay_args": {"lo": m.eval(lo, True).as_long(), "hi": m.eval(hi, True).as_long(), "idx": m.eval(i, True).as_long()} if m else None}
    for pa, pb, pc in itertools.product([False, True], repeat=3):
        vals = (a if pa else None, b if pb else None, c if pc else None)
        try:
            outs = k.Interp(SliceSelector._check_range).run(SimpleNamespace(env=env, token=None), *vals)
        except k.Unsupported as e:
            return {"status": "unknown", "notes": ["_check_range not translatable: %s" % e]}
        raises = k.outcome_guard(outs, "raise", lambda nm: nm == "JSONPathIndexError")
        exp = z3.Or([z3.Or(v < lo, v > hi) for v in vals if v is not None] + [z3.BoolVal(False)])
        r, m, dt = k.prove(raises == exp if raises is not False else z3.Not(exp), assumptions=[lo <= hi])
        tot += dt
        queries.append({"claim": "_check_range present=%s raises <=> some present component outside [lo,hi]" % ((pa, pb, pc),), "result": r, "s": round(dt, 4)})
        if r != "unsat":
            args = None
            if m is not None:
                args = {"lo": m.eval(lo, True).as_long(), "hi": m.eval(hi, True).as_long()}
                for nm, p_, v in (("start", pa, a), ("end", pb, b), ("step", pc, c)):
                    if p_:
                        args[nm] = m.eval(v, True).as_long()
            return {"status": "unknown" if r != "sat" else "refuted", "queries": queries, "failure": "slice guard", "replay_module": "vtools.props.c07", "replay_func": "r_guard", "replay_args": args}
    return {"status": "confirmed", "queries": queries, "solver_checks": len(queries), "solver_s": round(tot, 4), "paths": len(queries), "confirmed_paths": len(queries)}


def r_guard(lo: int, hi: int, idx=None, start=None, end=None, step=None):
    from jsonpath_rfc9535.exceptions import JSONPathIndexError

    assume(lo <= hi)
    env = _Env()
    env.min_int_index, env.max_int_index = lo, hi
    if idx is not None:
        try:
            IndexSelector(env=env, token=TOK, index=idx)
            raised = False
        except JSONPathIndexError:
            raised = True
        if raised != (idx < lo or idx > hi):
            return "index guard wrong"
    try:
        SliceSelector(env=env, token=TOK, start=start, stop=end, step=step)
        raised = False
    except JSONPathIndexError:
        raised = True
    exp = any(x is not None and (x < lo or x > hi) for x in (start, end, step))
    return True if raised == exp else "slice guard wrong"
