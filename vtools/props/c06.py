"""C06 — comparison operators implement the RFC 9535 comparison table (DESIGN §4 C06)."""
from __future__ import annotations

from typing import Dict, List, Union

import jsonpath_rfc9535 as jp
from jsonpath_rfc9535.filter_expressions import NOTHING, _compare
from jsonpath_rfc9535.node import JSONPathNodeList

from vtools.inst import P, assume, fresh
from vtools.ref.compare import REF_NOTHING, ref_compare

Scalar = Union[None, bool, int, float, str]
OPS = ["==", "!=", "<", ">", "<=", ">="]
KINDS = ["nothing", "null", "bool", "int", "float", "str", "list", "dict"]
INF = float("inf")

INFO = {
    "explanation": "Symbolic execution of the real _compare/_eq/_lt and of ComparisonExpression.evaluate (through find()) with both comparands solver variables of every JSON kind "
    "(unbounded ints, finite floats, strings over all code points, arrays/objects of scalars and one level of nesting), against the RFC 9535 comparison table, for all six operators.",
    "functions": ["filter_expressions._compare", "filter_expressions._eq", "filter_expressions._lt", "filter_expressions.Nothing.__eq__", "filter_expressions.ComparisonExpression.evaluate",
                  "filter_expressions.RelativeFilterQuery.evaluate", "filter_expressions.RootFilterQuery.evaluate", "filter_expressions.FunctionExtension.evaluate", "function_extensions.value.Value.__call__", "selectors.FilterSelector.resolve"],
    "bounds": {"quick": {"strings": "<= 2 chars", "containers": "<= 2 entries, elements scalar or (nested obligations) a container of <= 1 scalar", "kind pairs": "all 8x8"},
               "thorough": {"strings": "<= 3 chars", "containers": "<= 3 entries", "kind pairs": "all 8x8"}},
    "models": [],
    "outside": ["containers nested deeper than 2", "NaN/inf (not JSON values)", "floats are CrossHair's real/IEEE model; counterexamples are replayed on real floats"],
    "assumptions": ["comparands are JSON values as json.load produces them, or 'nothing'"],
}


def _finite(f: float) -> bool:
    return f == f and f != INF and f != -INF


def ch_setup() -> None:
    from vtools import chpatches

    chpatches.use_real_floats()


def _scalar(e: str):
    """A symbolic scalar of any JSON kind, built lazily from typed parts."""
    k = fresh(int, e + "k")
    assume(0 <= k <= 4)
    if k == 0:
        return None
    if k == 1:
        return fresh(bool, e + "b")
    if k == 2:
        i = fresh(int, e + "i")
        assume(-1000 <= i <= 1000)
        return i
    if k == 3:
        f = fresh(float, e + "f")
        assume(_finite(f))
        return f
    s = fresh(str, e + "s")
    assume(len(s) <= 1)
    return s


def _pick(prefix: str, k: str, maxlen: int, impl: bool, bound_int: bool):
    """Build the comparand of kind *k* (containers are real list/dict objects with symbolic elements)."""
    if k == "nothing":
        return NOTHING if impl else REF_NOTHING
    if k == "null":
        return None
    if k == "bool":
        return fresh(bool, prefix + "b")
    if k == "int":
        i = fresh(int, prefix + "i")
        if bound_int:
            assume(-(2**31) <= i <= 2**31)
        return i
    if k == "float":
        f = fresh(float, prefix + "f")
        assume(_finite(f))
        return f
    if k == "str":
        s = fresh(str, prefix + "s")
        assume(len(s) <= maxlen)
        return s
    n = fresh(int, prefix + "n")
    assume(0 <= n <= min(maxlen, 3))
    elems = []
    for j in range(3):
        if j < n:
            elems.append(_scalar("%se%d" % (prefix, j)))
    if k == "list":
        return elems
    d = {}
    for j, e in enumerate(elems):
        # member names only matter through equality: drawn from a 3-name alphabet by a symbolic selector
        # (a symbolic str key would be realized by hashing when stored in a real dict)
        ksel = fresh(int, "%se%dkey" % (prefix, j))
        assume(0 <= ksel <= 2)
        d["a" if ksel == 0 else ("b" if ksel == 1 else "")] = e
    return d


def _chk_scalar(x, maxlen: int) -> None:
    if isinstance(x, bool):
        return
    if isinstance(x, float):
        assume(_finite(x))
    elif isinstance(x, int):
        assume(-(2**53) <= x <= 2**53)
    elif isinstance(x, str):
        assume(len(x) <= maxlen)


def _args(side, impl):
    k = P["ka" if side == 0 else "kb"]
    other = P["kb" if side == 0 else "ka"]
    bound = other in ("float", "list", "dict") or P.get("template") is not None
    mx = P.get("maxlen", 2)
    if k in ("list", "dict") and other in ("list", "dict"):
        mx = P.get("maxlen2", 1)
    return _pick("l" if side == 0 else "r", k, mx, impl, bound)


def h_compare() -> Union[bool, str]:
    """_compare(a, op, b) == RFC table for all six operators; a, b symbolic of the instance's kinds."""
    ka, kb = P["ka"], P["kb"]
    a = _args(0, True)
    b = _args(1, True)
    ra = REF_NOTHING if ka == "nothing" else a
    rb = REF_NOTHING if kb == "nothing" else b
    for op in OPS:
        got = _compare(a, op, b)
        exp = ref_compare(ra, op, rb)
        if got != exp:
            return "_compare(%r, %r, %r) = %r, RFC says %r" % (a, op, b, got, exp)
    # an empty nodelist stands for 'nothing' as well
    if ka == "nothing":
        for op in OPS:
            if _compare(JSONPathNodeList(), op, b) != ref_compare(ra, op, rb):
                return "empty nodelist %s %r" % (op, b)
    if kb == "nothing":
        for op in OPS:
            if _compare(a, op, JSONPathNodeList()) != ref_compare(ra, op, rb):
                return "%r %s empty nodelist" % (a, op)
    return True


def h_nested() -> Union[bool, str]:
    """Depth-2 containers differing only in a leaf (bool-vs-number leaves included)."""
    sel = fresh(int, "sel")
    assume(0 <= sel <= 3)
    k1 = "a"
    k2 = "a" if fresh(bool, "samekey") else "b"
    x = _scalar("xe0")
    y = _scalar("ye0")
    if sel == 0:
        a, b = [[x]], [[y]]
    elif sel == 1:
        a, b = [{k1: x}], [{k2: y}]
    elif sel == 2:
        a, b = {k1: [x]}, {k2: [y]}
    else:
        a, b = {"o": {k1: x}}, {"o": {k2: y}}
    for op in OPS:
        got = _compare(a, op, b)
        exp = ref_compare(a, op, b)
        if got != exp:
            return "_compare(%r, %r, %r) = %r, RFC says %r" % (a, op, b, got, exp)
    return True


TEMPLATES = {
    # name: (lhs text, rhs text, how to obtain the reference comparands from (A, B))
    "rel_rel": ("@.a", "@.b", lambda A, B: (A, B)),
    "rel_missing": ("@.a", "@.z", lambda A, B: (A, REF_NOTHING)),
    "missing_rel": ("@.z", "@.b", lambda A, B: (REF_NOTHING, B)),
    "missing_missing": ("@.z", "$.nope", lambda A, B: (REF_NOTHING, REF_NOTHING)),
    "abs_rel": ("$[0].a", "@['b']", lambda A, B: (A, B)),
    "value_rel": ("value(@.a)", "@.b", lambda A, B: (A, B)),
    "rel_value_missing": ("@.a", "value(@.z)", lambda A, B: (A, REF_NOTHING)),
    "value_multi": ("value(@.*)", "@.b", None),  # handled specially: nothing unless exactly one member
    "rel_lit_true": ("@.a", "true", lambda A, B: (A, True)),
    "rel_lit_1": ("@.a", "1", lambda A, B: (A, 1)),
    "lit_1f_rel": ("1.0", "@.b", lambda A, B: (1.0, B)),
    "rel_lit_null": ("@.a", "null", lambda A, B: (A, None)),
    "rel_lit_str": ("@.a", "'a'", lambda A, B: (A, "a")),
    "lit_false_rel": ("false", "@.b", lambda A, B: (False, B)),
    "rel_lit_0": ("@.a", "0", lambda A, B: (A, 0)),
    "rel_lit_empty": ("@.a", "''", lambda A, B: (A, "")),
    "len_rel": ("length(@.a)", "@.b", None),
}
_COMPILED: Dict[str, object] = {}


def _q(text: str):
    c = _COMPILED.get(text)
    if c is None:
        c = jp.compile(text)
        _COMPILED[text] = c
    return c


def h_find() -> Union[bool, str]:
    """The same table observed through find('$[?<lhs> <op> <rhs>]', [child]) for every way of producing a comparand."""
    tn = P["template"]
    A = _args(0, False)
    B = _args(1, False)
    lhs, rhs, how = TEMPLATES[tn]
    child = {"a": A, "b": B}
    doc = [child]
    if tn == "value_multi":
        ra, rb = REF_NOTHING, B  # two members -> value() of a 2-node list is nothing
    elif tn == "len_rel":
        if isinstance(A, (str, list, dict)):
            ra = len(A)
        else:
            ra = REF_NOTHING
        rb = B
    else:
        ra, rb = how(A, B)
    for op in OPS:
        q = "$[?%s %s %s]" % (lhs, op, rhs)
        nodes = _q(q).find(doc)
        got = len(nodes) == 1
        if got and nodes[0].value is not child:
            return "wrong node selected"
        exp = ref_compare(ra, op, rb)
        if got != bool(exp):
            return "%s on child %r selected=%r, RFC says %r" % (q, child, got, exp)
    return True


def h_reach(ai: int, bi: int) -> bool:
    """Reachability twin: must be refuted (some ints compare equal)."""
    return not _compare(ai, "==", bi)


def selftest_ref() -> int:
    """The comparison expectations recorded in the repository's own tests must agree with the reference table."""
    import importlib.util

    n = 0
    for fn in ("test_ietf_comparison", "test_compare"):
        spec = importlib.util.spec_from_file_location("t_" + fn, "/repo/tests/%s.py" % fn)
        m = importlib.util.module_from_spec(spec)
        spec.loader.exec_module(m)
        for case in m.TEST_CASES:
            if case.op not in OPS:
                continue

            def conv(v):
                if v is NOTHING or (isinstance(v, JSONPathNodeList) and len(v) == 0):
                    return REF_NOTHING
                return v

            exp = ref_compare(conv(case.left), case.op, conv(case.right))
            assert exp == case.want, (fn, case.description, exp, case.want)
            n += 1
    assert n >= 30
    return n


SELFTESTS = [selftest_ref]


def obligations(tier: str):
    mx = 2 if tier == "quick" else 3
    t = 90 if tier == "quick" else 400
    obls = []
    for ka in KINDS:
        for kb in KINDS:
            obls.append({"id": "compare.%s.%s" % (ka, kb), "func": "h_compare", "params": {"ka": ka, "kb": kb, "maxlen": mx}, "timeout": t})
    obls.append({"id": "nested", "func": "h_nested", "timeout": t})
    obls.append({"id": "reach", "func": "h_reach", "timeout": 30, "expect": "refuted"})
    vk = [k for k in KINDS if k != "nothing"]
    pairs_quick = [("int", "bool"), ("bool", "int"), ("float", "int"), ("str", "str"), ("null", "null"), ("list", "list"), ("dict", "dict"), ("int", "str"), ("bool", "bool"), ("list", "dict"), ("null", "bool"), ("float", "float")]
    for tn in TEMPLATES:
        pairs = pairs_quick if tier == "quick" else [(a, b) for a in vk for b in vk]
        if tier == "quick" and tn not in ("rel_rel", "abs_rel", "value_rel"):
            # literal / missing templates depend on one comparand only
            pairs = [(k, "int") for k in vk] if TEMPLATES[tn][0] in ("@.a", "value(@.a)", "length(@.a)", "value(@.*)") and tn not in ("value_multi",) else [("int", k) for k in vk]
        for ka, kb in pairs:
            obls.append({"id": "find.%s.%s.%s" % (tn, ka, kb), "func": "h_find", "params": {"ka": ka, "kb": kb, "maxlen": mx, "template": tn}, "timeout": t})
    return obls


# ------------------------------------------------------------------ concrete replays for findings
def r_compare(a, op, b):
    got = _compare(a, op, b)
    exp = ref_compare(a, op, b)
    return True if bool(got) == bool(exp) else "_compare(%r, %r, %r) = %r, RFC says %r" % (a, op, b, got, exp)


def r_find(lhs, op, rhs, A, B):
    child = {"a": A, "b": B}
    q = "$[?%s %s %s]" % (lhs, op, rhs)
    got = len(jp.find(q, [child])) == 1
    vals = {"@.a": A, "@.b": B}
    exp = ref_compare(vals[lhs], op, vals[rhs])
    return True if got == bool(exp) else "%s on %r selected=%r, RFC says %r" % (q, child, got, exp)
