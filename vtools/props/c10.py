"""C10 — length/count/value and the function-call type conversions follow RFC 9535 (DESIGN §4 C10)."""
from __future__ import annotations

from typing import Dict, List, Union

import jsonpath_rfc9535 as jp
from jsonpath_rfc9535 import JSONPathEnvironment
from jsonpath_rfc9535.filter_expressions import NOTHING
from jsonpath_rfc9535.function_extensions import Count, ExpressionType, FilterFunction, Length, Value
from jsonpath_rfc9535.node import JSONPathNode, JSONPathNodeList

from vtools import evalh, hcommon
from vtools.inst import P, assume, fresh
from vtools.ref.compare import REF_NOTHING
from vtools.ref.evalref import RefFunctions, ref_eval
from vtools.ref.grammar import LOGICAL, NODES, VALUE, ref_parse

INFO = {
    "explanation": "(bodies) Length/Count/Value.__call__ executed on symbolic arguments of every JSON kind (strings over all code points incl. non-BMP, arrays/objects, scalars, nothing) and on "
    "node lists of 0-3 nodes. (conversions) probe functions with a declared ValueType / LogicalType / NodesType parameter are registered on a real environment and record what they receive; "
    "filter queries passing every argument expression kind (literal, '@' on container and scalar children, '$', singular hitting/missing, non-singular with 0/1/2 results, nested calls, "
    "comparisons, negation) are compiled and evaluated by the real code on symbolic children of every kind; the recorded arguments must equal, call by call, what the reference evaluator passes "
    "under the RFC 9535 conversions (single value / nothing / node list / strict boolean), and the selected nodes must equal the reference result (the declared result type is honoured).",
    "functions": ["function_extensions.length.Length.__call__", "function_extensions.count.Count.__call__", "function_extensions.value.Value.__call__", "filter_expressions.FunctionExtension.evaluate",
                  "filter_expressions.FunctionExtension._unpack_node_lists", "filter_expressions.RelativeFilterQuery.evaluate", "filter_expressions.RootFilterQuery.evaluate", "filter_expressions._is_truthy"],
    "bounds": {"quick": {"child": "every kind, containers of <= 2 symbolic scalars", "strings": "<= 3 chars (length)", "nodelists": "<= 3 nodes"}, "thorough": {"child": "same, nested one level deeper"}},
    "models": ["floats as reals"],
    "outside": ["user functions with more than one parameter in the probe pool (arity is C05's subject)"],
    "assumptions": ["probe functions are pure recorders"],
}

IMPL_LOG: List[object] = []
REF_LOG: List[object] = []


def _probe(t: str, ret: str = LOGICAL):
    tm = {VALUE: ExpressionType.VALUE, LOGICAL: ExpressionType.LOGICAL, NODES: ExpressionType.NODES}

    class Probe(FilterFunction):
        arg_types = [tm[t]]
        return_type = tm[ret]

        def __call__(self, x):
            IMPL_LOG.append(x)
            return True if ret != VALUE else 7

    return Probe()


def _ref_probe(ret: str = LOGICAL):
    def f(x):
        REF_LOG.append(x)
        return True if ret != VALUE else 7

    return f


ENV = JSONPathEnvironment()
ENV.function_extensions["pv"] = _probe(VALUE)
ENV.function_extensions["pl"] = _probe(LOGICAL)
ENV.function_extensions["pn"] = _probe(NODES)
ENV.function_extensions["vv"] = _probe(VALUE, VALUE)
FNS = RefFunctions({"pv": ((VALUE,), LOGICAL, _ref_probe()), "pl": ((LOGICAL,), LOGICAL, _ref_probe()), "pn": ((NODES,), LOGICAL, _ref_probe()), "vv": ((VALUE,), VALUE, _ref_probe(VALUE))})

POOL = [
    "$[?pv(1)]", "$[?pv('a')]", "$[?pv(null)]", "$[?pv(@)]", "$[?pv($)]", "$[?pv(@.a)]", "$[?pv(@[0])]", "$[?pv($[0])]", "$[?pv(value(@.*))]", "$[?pv(length(@))]", "$[?pv(count(@.*))]", "$[?pv(vv(@.a))]",
    "$[?pn(@)]", "$[?pn(@.*)]", "$[?pn(@.a)]", "$[?pn($..a)]", "$[?pn(@[?@])]", "$[?pn(@..*)]",
    "$[?pl(@)]", "$[?pl(@.a)]", "$[?pl(@.*)]", "$[?pl(!@.a)]", "$[?pl(@.a == 0)]", "$[?pl(@.a && @.b)]", "$[?pl(pl(@.a))]", "$[?pl(pn(@.*))]", "$[?pl((@.a))]", "$[?pl(@ == @)]",
    "$[?vv(@) == 7]", "$[?vv(@.a) != vv(@.b)]", "$[?!pv(@.a)]", "$[?pv(@.a) && pl(@.b)]", "$[?length(@) == 1 || count(@.*) == 2 || value(@.*) == 0]",
]
_COMPILED: Dict[str, object] = {}


def ch_setup() -> None:
    from vtools import chpatches

    chpatches.install(slices=True, ints=False)
    chpatches.use_real_floats()
    chpatches.install_int_repr_placeholder()


def _same_arg(t_impl, t_ref) -> Union[bool, str]:
    if t_ref is REF_NOTHING:
        return True if t_impl is NOTHING else "library passed %r, RFC passes nothing" % (t_impl,)
    if t_impl is NOTHING:
        return "library passed nothing, RFC passes %r" % (t_ref,)
    if isinstance(t_ref, list) and len(t_ref) > 0 and isinstance(t_ref[0], tuple) or (isinstance(t_ref, list) and isinstance(t_impl, JSONPathNodeList)):
        if not isinstance(t_impl, JSONPathNodeList):
            return "NodesType parameter received %r, not a node list" % (t_impl,)
        if len(t_impl) != len(t_ref):
            return "node list of %d nodes, RFC passes %d" % (len(t_impl), len(t_ref))
        for n, (_loc, v) in zip(t_impl, t_ref):
            if not evalh.same_value(n.value, v):
                return "node list differs"
        return True
    if isinstance(t_ref, bool):
        if not (t_impl is True or t_impl is False):
            return "received %r where a boolean is due (%r)" % (t_impl, t_ref)
        return True if t_impl == t_ref else "received %r, RFC passes %r" % (t_impl, t_ref)
    return True if evalh.same_value(t_impl, t_ref) else "received %r, RFC passes %r" % (t_impl, t_ref)


def h_conv() -> Union[bool, str]:
    q = P["query"]
    c = _COMPILED.get(q)
    if c is None:
        c = _COMPILED[q] = (ENV.compile(q), ref_parse(q, FNS.signatures()))
    if P.get("single_member"):
        inner = hcommon.sym_json("i", 1, 2, kind=P.get("innerkind"), strlen=1, intbound=1000, names=["a", "b"])
        child = {"a": inner} if hcommon.sym_choice("shape", 2) == 0 else [inner]
    else:
        child = hcommon.sym_json("c", P.get("depth", 1), 2, kind=P.get("childkind"), strlen=1, intbound=1000, names=["a", "b"])
    doc = [child] if P["wrap"] == "array" else {"k": child, "a": 0}
    del IMPL_LOG[:]
    del REF_LOG[:]
    nodes = c[0].find(doc)
    expected = ref_eval(c[1], doc, None, FNS)
    r = evalh.check_nodes(nodes, expected, doc)
    if r is not True:
        return "%s on %r: %s" % (q, doc, r)
    if len(IMPL_LOG) != len(REF_LOG):
        return "%s on %r: %d probe calls, RFC evaluation makes %d" % (q, doc, len(IMPL_LOG), len(REF_LOG))
    for a, b in zip(IMPL_LOG, REF_LOG):
        r = _same_arg(a, b)
        if r is not True:
            return "%s on %r: %s" % (q, doc, r)
    return True


def h_length() -> Union[bool, str]:
    v = hcommon.sym_json("v", 1, 3, kind=P.get("kind"), strlen=3, intbound=None, names=["a", "b", "c"])
    got = Length()(v)
    if isinstance(v, (str, list, dict)) and not isinstance(v, bool):
        n = 0
        for _x in v:
            n += 1
        return True if got == n and got is not NOTHING else "length(%r) = %r" % (v, got)
    return True if got is NOTHING else "length(%r) = %r, RFC says nothing" % (v, got)


def h_length_nothing() -> Union[bool, str]:
    got = Length()(NOTHING)
    return True if got is NOTHING else "length(nothing) = %r" % (got,)


def h_count_value() -> Union[bool, str]:
    n = hcommon.sym_choice("n", 4)
    vals = [hcommon.sym_scalar("x%d" % i, None, strlen=1) for i in range(n)]
    nl = JSONPathNodeList(JSONPathNode(value=v, location=(i,), root=vals) for i, v in enumerate(vals))
    if Count()(nl) != n:
        return "count of %d nodes = %r" % (n, Count()(nl))
    got = Value()(nl)
    if n == 1:
        return True if evalh.same_value(got, vals[0]) else "value([x]) = %r" % (got,)
    return True if got is NOTHING else "value of %d nodes = %r, RFC says nothing" % (n, got)


def h_reach() -> bool:
    """Reachability twin: must be refuted (a LogicalType probe does receive False for some child)."""
    c = ENV.compile("$[?pl(@.a)]")
    del IMPL_LOG[:]
    child = hcommon.sym_json("c", 1, 1, kind=6, names=["a", "b"])
    c.find([child])
    return not (len(IMPL_LOG) == 1 and IMPL_LOG[0] is False)


def r_conv(query, doc):
    c = ENV.compile(query)
    ast = ref_parse(query, FNS.signatures())
    del IMPL_LOG[:]
    del REF_LOG[:]
    nodes = c.find(doc)
    expected = ref_eval(ast, doc, None, FNS)
    r = evalh.check_nodes(nodes, expected, doc)
    if r is not True:
        return r
    if len(IMPL_LOG) != len(REF_LOG):
        return "probe call counts differ"
    for a, b in zip(IMPL_LOG, REF_LOG):
        r = _same_arg(a, b)
        if r is not True:
            return r
    return True


def selftest_pool() -> int:
    for q in POOL:
        ENV.compile(q)
        ref_parse(q, FNS.signatures())
    return len(POOL)


SELFTESTS = [selftest_pool]


def obligations(tier: str):
    obls = []
    t = 300 if tier == "quick" else 1200
    for qi, q in enumerate(POOL):
        for ck in range(7):
            for w in (("array",) if tier == "quick" else ("array", "object")):
                obls.append({"id": "conv%02d.%s.%s" % (qi, hcommon.KIND_NAMES[ck], w), "func": "h_conv", "params": {"query": q, "childkind": ck, "wrap": w, "depth": 1}, "timeout": t})
        if tier == "thorough" or "value(" in q or "vv(" in q or "length(" in q:
            # a nested call feeding a parameter: the only member of the child holds an arbitrary one-level value
            for ik in range(7):
                obls.append({"id": "nested%02d.%s" % (qi, hcommon.KIND_NAMES[ik]), "func": "h_conv", "params": {"query": q, "single_member": True, "innerkind": ik, "wrap": "array"}, "timeout": t})
    for k in range(7):
        obls.append({"id": "length.%s" % hcommon.KIND_NAMES[k], "func": "h_length", "params": {"kind": k}, "timeout": t})
    obls.append({"id": "length.nothing", "func": "h_length_nothing", "timeout": 60})
    obls.append({"id": "count_value", "func": "h_count_value", "timeout": t})
    obls.append({"id": "reach", "func": "h_reach", "timeout": 60, "expect": "refuted"})
    return obls
