"""C09 — string literals and member names decode exactly as RFC 9535 specifies (DESIGN §4 C09)."""
from __future__ import annotations

from typing import Union

import jsonpath_rfc9535 as jp
from jsonpath_rfc9535.exceptions import JSONPathError
from jsonpath_rfc9535.parse import Parser

from vtools import hcommon, holes
from vtools.inst import P, assume
from vtools.ref.grammar import RefParser, RefSyntaxError

INFO = {
    "explanation": "(A) The literal body is k symbolic characters (any scalar value) inside concrete context (both quote styles, after a backslash, inside \\uXXXX and surrogate-pair escapes with 2-4 symbolic hex "
    "digits, truncated escapes), in name-selector and in comparison position; the real lexer+parser run symbolically; postcondition: rejected iff the RFC string-literal rule does not derive it, otherwise "
    "the name selected by find() on an object having that member (resp. the child string that compares equal) is exactly the RFC decoding. (B2) z3 obligations translated from the real source: "
    "_parse_hex_digits for all 4-tuples of code points, the surrogate predicates for all ints, the surrogate-pair combination for all pairs, _string_from_codepoint for all ints.",
    "functions": ["lex.lex_string_factory/_lex_string", "parse.Parser._decode_string_literal", "parse.Parser._unescape_string", "parse.Parser._decode_escape_sequence", "parse.Parser._decode_hex_char",
                  "parse.Parser._parse_hex_digits", "parse.Parser._string_from_codepoint", "parse.Parser._is_high_surrogate/_is_low_surrogate", "selectors.NameSelector.resolve", "filter_expressions.StringLiteral"],
    "bounds": {"quick": {"literal body": "<= 2 symbolic characters per instance (+ concrete context); hex digits: 2 symbolic of 4", "kernels (z3)": "all code points / all ints"},
               "thorough": {"literal body": "<= 3 symbolic characters; all 4 hex digits symbolic", "kernels (z3)": "all"}},
    "models": ["guarded arithmetic rewrites of << | & (each rewrite guarded by a solver-checked condition)", "str.encode as UTF-8 arithmetic", "M3/M6 as C04", "document objects with symbolic member names are equality-scan dicts"],
    "outside": ["literals with more symbolic characters than the bound in one instance (longer literals are concatenations of the same per-character/per-escape steps)"],
    "assumptions": ["query strings over Unicode scalar values"],
}


def ch_setup() -> None:
    hcommon.install_text_models()


def h_literal() -> Union[bool, str]:
    """P: pre/suf = literal text around the hole *inside* the quotes, quote, position ('name' | 'cmp')."""
    quote = P["quote"]
    body = P["pre"] + holes.fragment() + P["suf"]
    lit = quote + body + quote
    pos = P["position"]
    q = ("$[" + lit + "]") if pos == "name" else ("$[?@ == " + lit + "]")
    # reference decoding of the literal alone; it must span the whole literal text
    rp = RefParser(lit)
    try:
        decoded, end = rp.string_literal(0)
        valid = end == len(lit)
    except RefSyntaxError:
        valid = False
        decoded = None
    env = hcommon.model_env()
    try:
        c = env.compile(q)
        accepted = True
    except JSONPathError:
        accepted = False
    if not valid:
        # the text between the outer quotes is not ONE string literal; the whole query may still be derivable in another way
        # (three symbolic characters can close the literal and open another selector: $['','']): outside this obligation
        whole, _ast, _rp = holes.ref_run(q)
        assume(whole != "valid")
        return True if not accepted else "invalid literal %r accepted" % (lit,)
    if not accepted:
        return "valid literal %r rejected" % (lit,)
    if pos == "name":
        doc = hcommon.sym_object([("other", 0), (decoded, 1)]) if decoded != "other" else hcommon.sym_object([("other", 0)])
        nodes = c.find(doc)
        if len(nodes) != 1 or nodes[0].location != (decoded,):
            return "literal %r selects %r, RFC decoding is %r" % (lit, [n.location for n in nodes], decoded)
        other = c.find(hcommon.sym_object([("x" + decoded, 1), (decoded + "y", 2)]))
        if len(other) != 0:
            return "literal %r also selects a different name" % (lit,)
    else:
        nodes = c.find([decoded, decoded + "x", 1])
        if len(nodes) != 1 or nodes[0].location != (0,):
            return "comparison with %r selects %r, RFC decoding is %r" % (lit, [n.location for n in nodes], decoded)
    return True


# ------------------------------------------------------------------ Engine B2
def b2_parse_hex_digits():
    """For all 4-tuples of code points: returns sum(hexval*16^i) iff all four are ASCII hex digits, else raises JSONPathSyntaxError."""
    import z3
    from types import SimpleNamespace

    from vtools.smt import kernel2z3 as k

    cs = [z3.BitVec("c%d" % i, 32) for i in range(4)]
    leads = [z3.BitVec("lead%d" % i, 32) for i in range(4)]
    dom = z3.And([z3.ULE(c, 0x10FFFF) for c in cs] + [z3.And(z3.UGE(l, 0xC2), z3.ULE(l, 0xF4)) for l in leads])
    # M4 (validated below for every code point): the first UTF-8 byte of a non-ASCII code point is in 0xC2..0xF4 and
    # every ASCII code point encodes to itself; the loop raises at the first non-hex byte, so later bytes are never read
    units = [z3.If(z3.ULT(c, 0x80), c, l) for c, l in zip(cs, leads)]

    class Digits:
        def encode(self):
            return list(units)

    Digits.encode._z3_callable = True  # type: ignore[attr-defined]
    d = Digits()
    d.encode = _mark(lambda: list(units))
    try:
        outs = k.Interp(Parser._parse_hex_digits).run(SimpleNamespace(), d, None)
    except k.Unsupported as e:
        return {"status": "unknown", "notes": ["kernel not translatable: %s" % e]}

    def hexval(c):
        return z3.If(z3.And(z3.UGE(c, 48), z3.ULE(c, 57)), c - 48, z3.If(z3.And(z3.UGE(c, 65), z3.ULE(c, 70)), c - 55, c - 87))

    def ishex(c):
        return z3.Or(z3.And(z3.UGE(c, 48), z3.ULE(c, 57)), z3.And(z3.UGE(c, 65), z3.ULE(c, 70)), z3.And(z3.UGE(c, 97), z3.ULE(c, 102)))

    allhex = z3.And([ishex(c) for c in cs])
    val = hexval(cs[0]) * 4096 + hexval(cs[1]) * 256 + hexval(cs[2]) * 16 + hexval(cs[3])
    ret_ok = k.outcome_guard(outs, "return", lambda v: v == val)
    raises = k.outcome_guard(outs, "raise", lambda nm: nm == "JSONPathSyntaxError")
    claim = z3.And(z3.Implies(allhex, ret_ok), z3.Implies(z3.Not(allhex), raises))
    r, m, dt = k.prove(claim, assumptions=[dom])
    q = [{"claim": "_parse_hex_digits(c0..c3) == hex value iff all hex digits, else JSONPathSyntaxError (all 4-tuples of code points)", "result": r, "s": round(dt, 3)}]
    if r == "sat":
        s = "".join(chr(m.eval(c, True).as_long()) for c in cs)
        return {"status": "refuted", "queries": q, "failure": "hex kernel wrong for %r" % s, "replay_module": "vtools.props.c09", "replay_func": "r_hex", "replay_args": {"digits": s}}
    return {"status": "confirmed" if r == "unsat" else "unknown", "queries": q, "solver_checks": 1, "solver_s": round(dt, 3), "paths": len(outs), "confirmed_paths": len(outs)}


def _mark(f):
    f._z3_callable = True
    return f


def b2_surrogates():
    """Predicates and the pair combination for all ints; _string_from_codepoint raises iff cp <= 0x1F."""
    import ast
    import inspect
    import textwrap
    import z3
    from types import SimpleNamespace

    from vtools.smt import kernel2z3 as k

    queries = []
    tot = 0.0
    x = z3.Int("x")
    for fn, lo, hi in ((Parser._is_high_surrogate, 0xD800, 0xDBFF), (Parser._is_low_surrogate, 0xDC00, 0xDFFF)):
        try:
            outs = k.Interp(fn).run(SimpleNamespace(), x)
        except k.Unsupported as e:
            return {"status": "unknown", "notes": ["%s not translatable: %s" % (fn.__name__, e)]}
        g = k.outcome_guard(outs, "return", lambda v: v if z3.is_bool(v) else z3.BoolVal(bool(v)))
        r, m, dt = k.prove(g == z3.And(x >= lo, x <= hi))
        tot += dt
        queries.append({"claim": "%s(x) <=> %#x <= x <= %#x (all ints)" % (fn.__name__, lo, hi), "result": r, "s": round(dt, 4)})
        if r != "unsat":
            return {"status": "refuted" if r == "sat" else "unknown", "queries": queries, "failure": fn.__name__, "replay_module": "vtools.props.c09", "replay_func": "r_pred",
                    "replay_args": {"which": fn.__name__, "x": m.eval(x, True).as_long()} if m is not None else None}
    try:
        outs = k.Interp(Parser._string_from_codepoint, calls={"chr": _mark(lambda v: ("chr", v))}).run(SimpleNamespace(), x, None)
    except k.Unsupported as e:
        return {"status": "unknown", "notes": ["_string_from_codepoint not translatable: %s" % e]}
    raises = k.outcome_guard(outs, "raise")
    r, m, dt = k.prove(raises == (x <= 0x1F))
    tot += dt
    queries.append({"claim": "_string_from_codepoint(x) raises <=> x <= 0x1F", "result": r, "s": round(dt, 4)})
    if r != "unsat":
        return {"status": "unknown", "queries": queries}
    # the surrogate-pair combination expression, extracted from the real _decode_hex_char
    src = textwrap.dedent(inspect.getsource(Parser._decode_hex_char))
    tree = ast.parse(src)
    expr = None
    for node in ast.walk(tree):
        if isinstance(node, ast.Assign) and isinstance(node.targets[0], ast.Name) and node.targets[0].id == "codepoint" and isinstance(node.value, ast.BinOp):
            if isinstance(node.value.left, ast.Constant) and node.value.left.value == 0x10000:
                expr = node.value
    if expr is None:
        return {"status": "unknown", "notes": ["combination expression not found in _decode_hex_char"], "queries": queries}
    cp, low = z3.BitVec("codepoint", 32), z3.BitVec("low_surrogate", 32)
    it = k.Interp(Parser._is_high_surrogate)
    try:
        val = it.expr(expr, {"codepoint": cp, "low_surrogate": low})
    except k.Unsupported as e:
        return {"status": "unknown", "notes": ["combination expression not translatable: %s" % e], "queries": queries}
    dom = z3.And(z3.UGE(cp, 0xD800), z3.ULE(cp, 0xDBFF), z3.UGE(low, 0xDC00), z3.ULE(low, 0xDFFF))
    want = z3.BitVecVal(0x10000, 32) + (cp - 0xD800) * 0x400 + (low - 0xDC00)
    r, m, dt = k.prove(z3.And(val == want, z3.UGE(val, 0x10000), z3.ULE(val, 0x10FFFF)), assumptions=[dom])
    tot += dt
    queries.append({"claim": "pair combination == 0x10000 + (hi-0xD800)*0x400 + (lo-0xDC00), within U+10000..U+10FFFF, for all surrogate pairs", "result": r, "s": round(dt, 4)})
    if r == "sat":
        return {"status": "refuted", "queries": queries, "failure": "surrogate combination", "replay_module": "vtools.props.c09", "replay_func": "r_pair",
                "replay_args": {"hi": m.eval(cp, True).as_long(), "lo": m.eval(low, True).as_long()}}
    return {"status": "confirmed" if r == "unsat" else "unknown", "queries": queries, "solver_checks": len(queries), "solver_s": round(tot, 4), "paths": len(queries), "confirmed_paths": len(queries)}


# ------------------------------------------------------------------ concrete replays
def r_hex(digits: str):
    lit = "'\\u" + digits + "'"
    return _r_literal(lit)


def r_pair(hi: int, lo: int):
    return _r_literal("'\\u%04X\\u%04x'" % (hi, lo))


def r_pred(which: str, x: int):
    if 0 <= x <= 0xFFFF:
        return _r_literal("'\\u%04x'" % x)
    return True


def _r_literal(lit: str):
    rp = RefParser(lit)
    try:
        decoded, end = rp.string_literal(0)
        valid = end == len(lit)
    except RefSyntaxError:
        valid, decoded = False, None
    try:
        c = jp.compile("$[" + lit + "]")
    except JSONPathError:
        return True if not valid else "valid literal %r rejected" % lit
    if not valid:
        return "invalid literal %r accepted" % lit
    got = c.segments[0].selectors[0].name
    return True if got == decoded else "literal %r decoded as %r, RFC says %r" % (lit, got, decoded)


def selftest_utf8_model() -> int:
    """M4: first UTF-8 byte of every non-ASCII scalar value is in 0xC2..0xF4; ASCII encodes to itself; arithmetic model == real encode."""
    n = 0
    for cp in range(0x110000):
        if 0xD800 <= cp <= 0xDFFF:
            continue
        b = chr(cp).encode()
        if cp < 0x80:
            assert b == bytes([cp])
        else:
            assert 0xC2 <= b[0] <= 0xF4
        if cp < 0x80:
            m = [cp]
        elif cp < 0x800:
            m = [0xC0 + cp // 64, 0x80 + cp % 64]
        elif cp < 0x10000:
            m = [0xE0 + cp // 4096, 0x80 + (cp // 64) % 64, 0x80 + cp % 64]
        else:
            m = [0xF0 + cp // 262144, 0x80 + (cp // 4096) % 64, 0x80 + (cp // 64) % 64, 0x80 + cp % 64]
        assert list(b) == m, cp
        n += 1
    return n


def selftest_ref_strings() -> int:
    """The reference decoder against json.loads on double-quoted literals (an independent decoder of the same escapes)."""
    import json

    n = 0
    samples = ['"a"', '"\\n\\t\\r\\b\\f\\/\\\\\\""', '"\\u0041\\u00e9\\uD83D\\uDE00"', '"\\u0000\\u001f"', '"é\U0001F600"', '"\'"']
    for s in samples:
        rp = RefParser(s)
        d, end = rp.string_literal(0)
        assert end == len(s) and d == json.loads(s), s
        n += 1
    for bad in ['"\\uD800"', '"\\uDC00\\uD800"', '"\\x"', '"\\u12"', '"\n"', '"\\\'"', "'\\\"'"]:
        rp = RefParser(bad)
        try:
            d, end = rp.string_literal(0)
            ok = end == len(bad)
        except RefSyntaxError:
            ok = False
        assert not ok, bad
        n += 1
    return n


SELFTESTS = [selftest_utf8_model, selftest_ref_strings]

CONTEXTS = [
    # (pre, suf, k, tier)
    ("", "", 1, "q"), ("", "", 2, "q"), ("", "", 3, "t"), ("a", "b", 1, "q"), ("\\", "", 1, "q"), ("\\", "", 2, "q"), ("a\\", "b", 1, "q"), ("", "\\n", 1, "q"),
    ("\\u", "", 1, "q"), ("\\u", "", 2, "q"), ("\\u", "", 3, "t"), ("\\u00", "", 2, "q"), ("\\u", "41", 2, "q"), ("\\u0", "1", 2, "q"), ("\\u", "", 4, "t"),
    ("\\uD8", "\\uDC00", 2, "q"), ("\\uD83D\\uDE", "", 2, "q"), ("\\uD83D\\u", "00", 2, "q"), ("\\uD83D", "\\uDE00", 2, "q"), ("\\uD83D\\", "DE00", 1, "q"), ("\\uD83D\\u", "", 4, "t"), ("\\u", "\\uDE00", 4, "t"),
    ("\\u12", "", 1, "q"), ("\\u123", "", 1, "q"), ("\\u1", "", 1, "q"), ("\\u1", "", 2, "q"), ("\\uD83D\\uDE0", "", 1, "q"), ("\\uD83D\\uDE", "", 1, "q"), ("\\u004", "b", 1, "q"),
    ("\\uDC", "", 2, "q"), ("\\uD83D", "", 1, "q"), ("\\uD83D", "", 2, "q"), ("\\uD83D\\uDE00", "", 1, "q"),
]


def obligations(tier: str):
    obls = [
        {"id": "smt.b2_parse_hex_digits", "kind": "smt", "func": "b2_parse_hex_digits", "timeout": 300},
        {"id": "smt.b2_surrogates", "kind": "smt", "func": "b2_surrogates", "timeout": 300},
    ]
    t = 300 if tier == "quick" else 1500
    for i, (pre, suf, k, tr) in enumerate(CONTEXTS):
        if tr == "t" and tier == "quick":
            continue
        for quote in ("'", '"'):
            for pos in ("name", "cmp"):
                if pos == "cmp" and tier == "quick" and i % 2 == 1:
                    continue
                obls.append({"id": "lit%02d.%s.%s.k%d" % (i, "sq" if quote == "'" else "dq", pos, k), "func": "h_literal",
                             "params": {"pre": pre, "suf": suf, "k": k, "quote": quote, "position": pos}, "timeout": t})
    return obls
