"""C18 — descendant traversal is bounded: deep/cyclic data raises JSONPathRecursionError (DESIGN §4 C18)."""
from __future__ import annotations

from typing import Union

import jsonpath_rfc9535 as jp
from jsonpath_rfc9535 import JSONPathEnvironment
from jsonpath_rfc9535.exceptions import JSONPathRecursionError

from vtools import evalh, hcommon, tape
from vtools.inst import P, assume, fresh
from vtools.ref.evalref import ref_eval
from vtools.ref.grammar import ref_parse

INFO = {
    "explanation": "The configured limit L is an unbounded solver variable (it is only compared); the document is a concrete shape of nesting depth d (spines of arrays/objects, the deep branch first / "
    "middle / last, a scalar or an empty container at the bottom) or a cyclic structure; the real descendant traversal runs in deterministic mode and in nondeterministic mode with every random draw a "
    "solver variable (all outcomes). Postcondition: d <= L => find('$..*') completes with the reference result (deterministic) / a permutation-equivalent node multiset (nondeterministic); "
    "d > L => JSONPathRecursionError - for every L; cyclic data => JSONPathRecursionError, never another exception, for every L up to the bound.",
    "functions": ["segments.JSONPathRecursiveDescentSegment.resolve/_visit/_nondeterministic_visit/_check_depth", "segments._nondeterministic_children", "environment.JSONPathEnvironment.max_recursion_depth"],
    "bounds": {"quick": {"nesting": "d <= 6", "limit": "any integer >= 1 (acyclic); 1..10 (cyclic)", "random draws": "all outcomes"}, "thorough": {"nesting": "d <= 9", "limit": "any >= 1; cyclic 1..16"}},
    "models": ["M7 ChoiceTape: random.shuffle/choice/sample driven by solver variables (validated: all permutations / selections reachable)"],
    "outside": ["limits and depths beyond the executed levels - in particular a large configured limit against CPython's own recursion limit (the deterministic visitor is a recursive generator): stated, not claimed"],
    "assumptions": ["depth = number of nested containers on the deepest path, the root container counting 1"],
}


class _Env(JSONPathEnvironment):
    pass


DET = _Env()


class _NEnv(JSONPathEnvironment):
    nondeterministic = True


NONDET = _NEnv()
_Q = {}


def spine(d: int, kind: str, position: str, bottom: str, narrow: bool = False):
    """A document whose deepest path has d nested containers."""
    if bottom == "scalar":
        cur = 0
    elif bottom == "emptylist":
        cur = []
    else:
        cur = {}
    start = d if bottom == "scalar" else d - 1
    for level in range(start):
        arr = (kind == "array") or (kind == "mixed" and level % 2 == 0)
        sib_a, sib_b = 1, "x"
        if narrow:  # one sibling only (nondeterministic mode: every member permutation multiplies the choice tree)
            if arr:
                cur = [cur, sib_a] if position != "last" else [sib_a, cur]
            else:
                cur = dict([("deep", cur), ("p", sib_a)] if position != "last" else [("p", sib_a), ("deep", cur)])
        elif arr:
            cur = {"first": [cur, sib_a, sib_b], "middle": [sib_a, cur, sib_b], "last": [sib_a, sib_b, cur]}[position]
        else:
            items = {"first": [("deep", cur), ("p", sib_a), ("q", sib_b)], "middle": [("p", sib_a), ("deep", cur), ("q", sib_b)], "last": [("p", sib_a), ("q", sib_b), ("deep", cur)]}[position]
            cur = dict(items)
    return cur


def depth_of(v) -> int:
    if isinstance(v, dict):
        return 1 + max([depth_of(x) for x in v.values()] + [0])
    if isinstance(v, list):
        return 1 + max([depth_of(x) for x in v] + [0])
    return 0


def h_limit() -> Union[bool, str]:
    d, mode = P["d"], P["mode"]
    doc = spine(d, P["kind"], P["position"], P["bottom"], narrow=(mode == "nondet"))
    dd = depth_of(doc)
    L = fresh(int, "limit")
    assume(L >= 1)
    env = DET if mode == "det" else NONDET
    env.max_recursion_depth = L
    if mode == "nondet":
        tape.install(tape.ChoiceTape())
    q = env.compile(P.get("query", "$..*"))  # compiled on every path: no state may leak from one symbolic path to the next
    try:
        nodes = q.find(doc)
        raised = False
    except JSONPathRecursionError:
        raised = True
    if dd > L:
        return True if raised else "nesting %d > limit %r but find() completed" % (dd, L)
    if raised:
        return "nesting %d <= limit %r but JSONPathRecursionError was raised" % (dd, L)
    expected = ref_eval(ref_parse(P.get("query", "$..*")), doc)
    if mode == "det":
        r = evalh.check_nodes(nodes, expected, doc)
        return True if r is True else r
    got = sorted(repr(n.location) for n in nodes)
    want = sorted(repr(loc) for loc, _v in expected)
    return True if got == want else "nondeterministic result has different nodes: %r vs %r" % (got, want)


def cyclic(kind: str):
    if kind == "self_list":
        a = [1]
        a.append(a)
        return a
    if kind == "self_dict":
        d = {"x": 1}
        d["self"] = d
        return d
    if kind == "two_cycle":
        a, b = [0], {"k": 0}
        a.append(b)
        b["back"] = a
        return a
    if kind == "three_cycle":
        a, b, c = {}, [], {}
        a["b"] = b
        b.append(c)
        c["a"] = a
        return {"top": a}
    if kind == "diamond_cycle":
        a = {"l": [], "r": []}
        a["l"].append(a["r"])
        a["r"].append(a)
        return [a]
    raise ValueError(kind)


def h_cyclic() -> Union[bool, str]:
    mode = P["mode"]
    doc = cyclic(P["kind"])
    L = fresh(int, "limit")
    assume(1 <= L <= P["maxlimit"])
    env = DET if mode == "det" else NONDET
    env.max_recursion_depth = L
    if mode == "nondet":
        tape.install(tape.ChoiceTape())
    q = env.compile("$..*")
    count = 0
    try:
        for _n in q.finditer(doc):
            count += 1
            if count > 10000:
                return "more than 10000 nodes yielded from cyclic data with limit %r" % (L,)
    except JSONPathRecursionError:
        return True
    return "cyclic data traversed without JSONPathRecursionError (limit %r, %d nodes)" % (L, count)


def h_reuse() -> Union[bool, str]:
    """The bound is a property of the data, not of what the compiled query saw before: after applications that raised, were
    abandoned half-way or completed, the same compiled query still completes on data within the limit and raises beyond it."""
    mode = P["mode"]
    L = fresh(int, "limit")
    assume(1 <= L <= 6)
    env = DET if mode == "det" else NONDET
    env.max_recursion_depth = L
    if mode == "nondet":
        tape.install(tape.ChoiceTape())
    q = env.compile("$..*")
    docs = [spine(d, "mixed", "first", "scalar", narrow=True) for d in ((1, 2, 3, 5) if mode == "det" else (1, 2))]
    for si in range(P["steps"]):
        doc = docs[hcommon.sym_choice("doc%d" % si, len(docs))]
        dd = depth_of(doc)
        how = hcommon.sym_choice("how%d" % si, 3)
        try:
            if how == 0:
                q.find(doc)
                raised = False
            elif how == 1:
                q.find_one(doc)
                continue
            else:
                it = iter(q.finditer(doc))
                next(it, None)
                next(it, None)
                continue
        except JSONPathRecursionError:
            raised = True
        if raised != (dd > L):
            return "step %d: nesting %d, limit %r, raised=%r (compiled query reused)" % (si, dd, L, raised)
    return True


def h_reach() -> bool:
    """Reachability twin: must be refuted (for some limit the traversal of a depth-3 document does complete)."""
    L = fresh(int, "limit")
    assume(L >= 1)
    DET.max_recursion_depth = L
    try:
        DET.compile("$..*").find([[[1]]])
    except JSONPathRecursionError:
        return True
    return False


def selftest_tape() -> int:
    return tape.validate_tape()


def selftest_spines() -> int:
    n = 0
    for d in range(1, 8):
        for kind in ("array", "object", "mixed"):
            for pos in ("first", "middle", "last"):
                for bottom in ("scalar", "emptylist", "emptydict"):
                    assert depth_of(spine(d, kind, pos, bottom)) == d, (d, kind, pos, bottom)
                    assert depth_of(spine(d, kind, pos, bottom, True)) == d
                    n += 1
    return n


SELFTESTS = [selftest_tape, selftest_spines]


def obligations(tier: str):
    obls = []
    dmax = 6 if tier == "quick" else 9
    t = 300 if tier == "quick" else 1200
    for mode in ("det", "nondet"):
        for d in range(1, dmax + 1):
            for kind in ("array", "object", "mixed"):
                for pos in ("first", "middle", "last"):
                    bottoms = ("scalar", "emptylist", "emptydict")
                    if tier == "quick":
                        bottoms = (("scalar", "emptylist", "emptydict")[(d + len(kind) + len(pos)) % 3],)
                    if mode == "nondet" and (d > (3 if tier == "quick" else 4) or pos == "middle"):
                        continue
                    for bottom in bottoms:
                        obls.append({"id": "limit.%s.d%d.%s.%s.%s" % (mode, d, kind, pos, bottom), "func": "h_limit", "params": {"d": d, "mode": mode, "kind": kind, "position": pos, "bottom": bottom}, "timeout": t})
        for kind in ("self_list", "self_dict", "two_cycle", "three_cycle", "diamond_cycle"):
            ml = (10 if tier == "quick" else 16) if mode == "det" else (3 if tier == "quick" else 4)
            obls.append({"id": "cyclic.%s.%s" % (mode, kind), "func": "h_cyclic", "params": {"mode": mode, "kind": kind, "maxlimit": ml}, "timeout": t})
    for mode in ("det", "nondet"):
        for steps in ((2,) if tier == "quick" else (2, 3)):
            if mode == "nondet" and (steps > 2 or tier == "quick"):
                continue
            obls.append({"id": "reuse.%s.len%d" % (mode, steps), "func": "h_reuse", "params": {"mode": mode, "steps": steps}, "timeout": t})
    obls.append({"id": "reach", "func": "h_reach", "timeout": 60, "expect": "refuted"})
    return obls


def r_limit(limit: int, doc, mode: str, tapes: int = 64):
    """Concrete replay: every outcome of the first *tapes* draw sequences (enumerated) respects the bound exactly."""
    env = DET if mode == "det" else NONDET
    env.max_recursion_depth = limit
    dd = depth_of(doc)
    q = env.compile("$..*")
    stack = [[]]
    runs = 0
    while stack and runs < tapes:
        prefix = stack.pop()
        arities = []

        class T(tape.ChoiceTape):
            def draw(self, k):
                if k <= 1:
                    return 0
                i = self.n
                self.n += 1
                arities.append(k)
                return prefix[i] if i < len(prefix) else 0

        if mode == "nondet":
            tape.install(T())
        try:
            q.find(doc)
            raised = False
        except JSONPathRecursionError:
            raised = True
        runs += 1
        if raised != (dd > limit):
            return "nesting %d, limit %d: raised=%r on random outcome %r" % (dd, limit, raised, prefix)
        if len(arities) > len(prefix):
            i = len(prefix)
            for v in range(arities[i]):
                stack.append(prefix + [v])
    return True
