"""C16 — lazy result iterators are independent under any interleaving (threads: argued, see level_note) (DESIGN §4 C16)."""
from __future__ import annotations

from typing import Any, Dict, List, Tuple, Union

import jsonpath_rfc9535 as jp
from jsonpath_rfc9535 import JSONPathEnvironment
from jsonpath_rfc9535.exceptions import JSONPathError

from vtools import evalh, hcommon
from vtools.inst import P, fresh
from vtools.props.c02 import FNS
from vtools.ref.evalref import ref_eval
from vtools.ref.grammar import ref_parse

INFO = {
    "explanation": "Up to 3 live result iterators - from the same compiled query or different ones (filter with a '$'-rooted sub-query, nested filter, descendant segment, function call), over the same "
    "document or different documents with symbolic leaves, from a shared environment - are advanced according to a schedule that is a list of symbolic choices (which iterator steps next, or is "
    "abandoned), so the executor covers every interleaving up to the bound; every iterator must yield exactly the sequence a solitary run yields (the reference evaluation), however the others are "
    "advanced or dropped. Frame obligation: after any partial consumption, every slot of every object reachable from the compiled queries and the environment registry is unchanged (identity), "
    "i.e. evaluation state lives only in generator frames - which is also what makes independently advanced iterators on several threads independent under CPython's sequentially consistent "
    "interleaving of bytecodes (argued from the frame condition, not explored).",
    "functions": ["query.JSONPathQuery.finditer", "segments.*.resolve (generators)", "selectors.*.resolve (generators)", "selectors.FilterSelector.resolve", "filter_expressions.*.evaluate", "filter_expressions.FilterContext"],
    "bounds": {"quick": {"iterators": "<= 3", "schedule": "<= 6 steps", "queries": "4 pool queries", "documents": "2 shapes with symbolic leaves"}, "thorough": {"iterators": "<= 3", "schedule": "<= 8 steps"}},
    "models": [],
    "outside": ["OS-thread schedules (not expressible in this family: argued from the frame condition)", "schedules longer than the bound"],
    "assumptions": ["CPython executes bytecodes of different threads in some sequential interleaving (GIL)"],
}

POOL = ["$.items[?@.v > $.limit]", "$.items[?@.tags[?@ == $.tag]]", "$..v", "$.items[?count(@.tags[*]) > 1].v"]
ENV = JSONPathEnvironment()
_COMPILED: Dict[str, Any] = {}
_BEFORE: Dict[str, Any] = {}


def ch_setup() -> None:
    from vtools import chpatches

    if P.get("prefix") is not None:
        hcommon.install_text_models()
        return
    chpatches.install(slices=True, ints=False)
    chpatches.install_int_repr_placeholder()


def _docs():
    d1 = {"limit": fresh(int, "l1"), "tag": 1, "items": [{"v": 3, "tags": [1, 2]}, {"v": 5, "tags": [fresh(int, "t1")]}, {"v": 9, "tags": []}]}
    d2 = {"limit": 4, "tag": 2, "items": [{"v": 5, "tags": [2]}, {"v": fresh(int, "a2"), "tags": [1, 2, 2]}]}
    return [d1, d2]


def _q(text: str):
    c = _COMPILED.get(text)
    if c is None:
        c = _COMPILED[text] = (ENV.compile(text), ref_parse(text, FNS.signatures()))
    return c


def _graph(obj, seen, out, depth=0):
    """(id(owner), slot name, id(value)) for everything reachable through __slots__/__dict__ of library objects."""
    if id(obj) in seen or depth > 12:
        return
    seen.add(id(obj))
    names: List[str] = []
    for cls in type(obj).__mro__:
        names.extend(getattr(cls, "__slots__", ()))
    if hasattr(obj, "__dict__"):
        names.extend(obj.__dict__.keys())
    for nm in names:
        if not hasattr(obj, nm):
            continue
        v = getattr(obj, nm)
        out.append((id(obj), nm, id(v)))
        if isinstance(v, (tuple, list)):
            for x in v:
                if type(x).__module__.startswith("jsonpath_rfc9535"):
                    _graph(x, seen, out, depth + 1)
        elif isinstance(v, dict):
            for k, x in v.items():
                out.append((id(v), repr(k), id(x)))
                if type(x).__module__.startswith("jsonpath_rfc9535"):
                    _graph(x, seen, out, depth + 1)
        elif type(v).__module__.startswith("jsonpath_rfc9535") and not isinstance(v, type):
            _graph(v, seen, out, depth + 1)


def _snapshot(queries) -> List[Tuple]:
    out: List[Tuple] = []
    seen: set = set()
    for q in queries:
        _graph(q, seen, out)
    return sorted(out)


def h_interleave() -> Union[bool, str]:
    steps = P["steps"]
    k = P["iterators"]
    docs = _docs()
    its = []
    spec = P["spec"]  # list of (query index, doc index)
    queries = []
    for qi, di in spec[:k]:
        c, ast = _q(POOL[qi])
        queries.append(c)
        its.append({"it": iter(c.finditer(docs[di])), "got": [], "want": ref_eval(ast, docs[di], None, FNS), "doc": docs[di], "done": False, "q": POOL[qi], "d": di})
    skey = repr(P["spec"][:k])
    before = _BEFORE.get(skey)
    if before is None:  # the compiled objects are shared by all paths of this process: snapshot them once
        before = _BEFORE[skey] = _snapshot(queries + [ENV])
    sched = []
    for si in range(steps):
        i = hcommon.sym_choice("s%d" % si, k + 1)
        if i == k:  # abandon one iterator (the first still live one)
            for st in its:
                if not st["done"]:
                    st["done"] = True
                    st["abandoned"] = True
                    sched.append("drop")
                    break
            continue
        st = its[i]
        if st["done"]:
            continue
        sched.append(i)
        try:
            n = next(st["it"])
            st["got"].append(n)
        except StopIteration:
            st["done"] = True
            st["exhausted"] = True
    # finish every iterator that was not abandoned, in order
    for st in its:
        if not st.get("abandoned"):
            for n in st["it"]:
                st["got"].append(n)
    for idx, st in enumerate(its):
        want = st["want"][: len(st["got"])] if st.get("abandoned") else st["want"]
        r = evalh.check_nodes(st["got"], want, st["doc"])
        if r is not True:
            return "schedule %r: iterator %d (%s on document %d) differs from its solitary run: %s" % (sched, idx, st["q"], st["d"], r)
    after = _snapshot(queries + [ENV])
    if before != after:
        return "schedule %r: a compiled query / environment object was modified by evaluation: %r" % (sched, [x for x in after if x not in before][:3])
    return True


def h_compile_frame() -> Union[bool, str]:
    """Frame obligation for compile(): no attribute of the environment or of its (shared) parser is written while a query is
    compiled - so concurrent compile() calls on one environment cannot disturb each other.  The query text has a symbolic hole."""
    from vtools import holes

    q = P["prefix"] + holes.fragment() + P["suffix"]
    env = JSONPathEnvironment()
    writes: List[str] = []
    base = type(env.parser)

    class Watched(base):  # type: ignore[misc, valid-type]
        def __setattr__(self, name, value):
            writes.append("parser." + name)
            base.__setattr__(self, name, value)

    env.parser.__class__ = Watched
    ebase = type(env)

    class WatchedEnv(ebase):  # type: ignore[misc, valid-type]
        def __setattr__(self, name, value):
            writes.append("env." + name)
            ebase.__setattr__(self, name, value)

    env.__class__ = WatchedEnv
    before = sorted((k, id(v)) for k, v in vars(env.parser).items())
    regs = dict(env.function_extensions)
    try:
        env.compile(q)
    except JSONPathError:
        pass
    if writes:
        return "compile(%r) wrote shared state: %r" % (q, writes[:4])
    if sorted((k, id(v)) for k, v in vars(env.parser).items()) != before or dict(env.function_extensions) != regs:
        return "compile(%r) changed the parser / registry" % (q,)
    return True


def h_reach() -> bool:
    """Reachability twin: must be refuted (two iterators over different documents do yield different sequences)."""
    docs = _docs()
    c, _a = _q(POOL[0])
    return [n.location for n in c.finditer(docs[0])] == [n.location for n in c.finditer(docs[1])]


SELFTESTS = []
SPECS = [
    [(0, 0), (0, 1), (1, 0)],  # same compiled query over two documents, plus another query
    [(1, 0), (1, 1), (1, 0)],  # nested filter, same query three times, two documents
    [(2, 0), (0, 0), (2, 1)],  # descendant + filter
    [(3, 0), (3, 1), (0, 1)],
    [(0, 0), (0, 0), (0, 0)],  # same query, same document
]


def obligations(tier: str):
    obls = []
    t = 600 if tier == "quick" else 1200
    steps = 4 if tier == "quick" else 7
    for si, spec in enumerate(SPECS):
        for k in (2, 3):
            st = steps if k == 2 else (3 if tier == "quick" else 6)
            obls.append({"id": "interleave.spec%d.k%d.steps%d" % (si, k, st), "func": "h_interleave", "params": {"spec": spec, "iterators": k, "steps": st}, "timeout": t})
    from vtools.corpus import SEEDS

    frame_seeds = [s for s in SEEDS if "?" in s][:: (3 if tier == "quick" else 1)] + ["$.a[0]", "$..*"]
    from vtools import holes

    for j, (pre, suf) in enumerate(holes.hole_instances(frame_seeds, replace=(1,))):
        if tier == "quick" and j % 3 != 0:
            continue
        obls.append({"id": "compile_frame%04d" % j, "func": "h_compile_frame", "params": {"prefix": pre, "suffix": suf, "k": 1}, "timeout": 300})
    obls.append({"id": "reach", "func": "h_reach", "timeout": 60, "expect": "refuted"})
    return obls
