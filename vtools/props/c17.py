"""C17 — nondeterministic mode only ever produces orderings RFC 9535 allows (DESIGN §4 C17)."""
from __future__ import annotations

import itertools
import json
from typing import Any, Dict, List, Tuple, Union

import jsonpath_rfc9535 as jp
from jsonpath_rfc9535 import JSONPathEnvironment

from vtools import hcommon, tape
from vtools.inst import LOG, P
from vtools.ref.evalref import apply_selector, children
from vtools.ref.grammar import ref_parse

INFO = {
    "explanation": "The stdlib random functions seen by segments.py/selectors.py are replaced by a tape whose every draw (shuffle position, coin flip, interleaving choice) is a solver variable, so the "
    "symbolic executor explores every branch of the choice tree of the real nondeterministic code - not the likely ones. Validity: on every path the produced nodelist must be a member of the set of "
    "nodelists RFC 9535 permits for that query and document (same nodes and multiplicities; array elements in index order; a node visited by a descendant segment before its descendants; the results of "
    "the selectors for one visited node contiguous; object members in any order per application), computed by an independent reference enumeration. Exhaustiveness: after the path tree is exhausted the "
    "set of produced nodelists must equal the permitted set; a missing ordering is confirmed by a concrete enumeration of all tapes.",
    "functions": ["selectors.WildcardSelector.resolve", "selectors.FilterSelector.resolve", "segments.JSONPathRecursiveDescentSegment.resolve/_nondeterministic_visit", "segments._nondeterministic_children"],
    "bounds": {"quick": {"documents": "pool of concrete shapes with <= 6 nodes, depth <= 3", "queries": "$.*, $[*], $..*, $..[*], $..a, $..[0], $[?@], $[?@.a], two-segment combinations"},
               "thorough": {"documents": "shapes with <= 8 nodes incl. those of tests/test_nondeterminism.py", "queries": "same plus $..[*,*]"}},
    "models": ["M7 ChoiceTape for random.shuffle/choice/sample (validated each run: every permutation / ordered selection reachable)"],
    "outside": ["documents with more nodes than the bound (the choice tree grows factorially)"],
    "assumptions": ["documents are trees"],
}


class _NEnv(JSONPathEnvironment):
    nondeterministic = True


ENV = _NEnv()
_Q: Dict[str, Any] = {}


def _loc_key(nodes) -> Tuple:
    return tuple(tuple(n.location) for n in nodes)


# ------------------------------------------------------------------ reference: the set of permitted nodelists
def _orders_children(loc, v) -> List[List[Tuple]]:
    """All orders in which the children of one node may be produced by one selector application."""
    ch = children(loc, v)
    if isinstance(v, dict):
        return [list(p) for p in itertools.permutations(ch)]
    return [ch]


def _sel_results(sel, loc, v, root) -> List[List[Tuple]]:
    """All permitted result lists of one selector applied to one node."""
    if sel[0] == "wild":
        return _orders_children(loc, v)
    if sel[0] == "filter":
        from vtools.ref.evalref import DEFAULT_FUNCTIONS, truth

        return [[(cl, cv) for cl, cv in order if truth(sel[1], cv, root, DEFAULT_FUNCTIONS)] for order in _orders_children(loc, v)]
    return [apply_selector(sel, loc, v, root, None)]


def _visit_orders(loc, v) -> List[List[Tuple]]:
    """All permitted visit orders of a descendant segment: linear extensions of {parent before child, array elements in index order}."""
    nodes: List[Tuple] = []
    before: Dict[int, set] = {}

    def add(l, val, parent_idx):
        idx = len(nodes)
        nodes.append((l, val))
        before[idx] = set() if parent_idx is None else {parent_idx}
        prev = None
        for cl, cv in children(l, val):
            ci = add(cl, cv, idx)
            if isinstance(val, list) and prev is not None:
                before[ci].add(prev)
            prev = ci
        return idx

    add(loc, v, None)
    out: List[List[Tuple]] = []

    def rec(done: List[int], remaining: set):
        if not remaining:
            out.append([nodes[i] for i in done])
            return
        for i in sorted(remaining):
            if before[i] <= set(done):
                rec(done + [i], remaining - {i})

    rec([], set(range(len(nodes))))
    return out


def permitted(ast, doc) -> set:
    """Set of permitted nodelists (as tuples of locations) for query AST on doc."""
    lists: List[List[Tuple]] = [[((), doc)]]
    for kind, sels in ast[1]:
        new_lists = []
        for nl in lists:
            # per input node: the alternatives of its contribution
            per_node = []
            for loc, v in nl:
                if kind == "child":
                    visit_alts = [[(loc, v)]]
                else:
                    visit_alts = _visit_orders(loc, v)
                alts = []
                for visit in visit_alts:
                    pieces = [[]]
                    for vl, vv in visit:
                        for sel in sels:
                            pieces = [p + r for p in pieces for r in _sel_results(sel, vl, vv, doc)]
                    alts.extend(pieces)
                # dedupe
                seen = []
                for a in alts:
                    if a not in seen:
                        seen.append(a)
                per_node.append(seen)
            for combo in itertools.product(*per_node) if per_node else [()]:
                flat = []
                for part in combo:
                    flat.extend(part)
                new_lists.append(flat)
        # dedupe
        ded = {}
        for l in new_lists:
            ded[tuple(x[0] for x in l)] = l
        lists = list(ded.values())
    return set(tuple(x[0] for x in l) for l in lists)


_PERMITTED: Dict[str, set] = {}


def _perm(q: str, doc_text: str):
    k = q + "|" + doc_text
    if k not in _PERMITTED:
        _PERMITTED[k] = permitted(ref_parse(q), json.loads(doc_text))
    return _PERMITTED[k]


# ------------------------------------------------------------------ harness
def h_valid() -> Union[bool, str]:
    q, doc_text = P["query"], P["doc"]
    doc = json.loads(doc_text)
    tape.install(tape.ChoiceTape())
    c = _Q.get(q)
    if c is None:
        c = _Q[q] = ENV.compile(q)
    nodes = c.find(doc)
    key = _loc_key(nodes)
    for n in nodes:  # values must be the document's own objects at those locations
        v = doc
        try:
            for kx in n.location:
                v = v[kx]
        except (KeyError, IndexError, TypeError):
            return "%s on %s produced a node at %r, a location that does not exist in the document" % (q, doc_text, n.location)
        if v != n.value:
            return "node %r holds a wrong value" % (n.location,)
    LOG.append([list(l) for l in key])
    if key not in _perm(q, doc_text):
        return "%s on %s produced %r, which RFC 9535 does not permit" % (q, doc_text, key)
    return True


def post_check(func: str, params: Dict[str, Any], result: Dict[str, Any], log: List[Any]):
    """After exhaustion: the set of produced nodelists must equal the permitted set (exhaustiveness)."""
    if func != "h_valid" or result.get("status") != "confirmed":
        return None
    produced = set(tuple(tuple(l) for l in entry) for entry in log)
    want = _perm(params["query"], params["doc"])
    missing = want - produced
    result["orderings_permitted"] = len(want)
    result["orderings_produced"] = len(produced)
    if missing:
        m = sorted(missing)[0]
        result["status"] = "refuted"
        result["failure"] = "permitted ordering never produced: %r (%d of %d permitted orderings missing)" % (m, len(missing), len(want))
        result["counterexample"] = {"missing": [list(x) for x in m]}
        result["replay_func_override"] = "r_missing"
    return None


def r_missing(missing):
    """Concrete confirmation: enumerate every tape (DFS over draw arities) on the real code and look for the ordering."""
    from vtools import inst

    q, doc_text = P["query"], P["doc"]
    want = tuple(tuple(x) for x in missing)
    if want not in _perm(q, doc_text):
        raise inst.PreconditionNotMet("not a permitted ordering")
    c = ENV.compile(q)
    stack = [[]]
    runs = 0
    while stack:
        prefix = stack.pop()
        arities: List[int] = []

        class T(tape.ChoiceTape):
            def draw(self, k):
                if k <= 1:
                    return 0
                i = self.n
                self.n += 1
                arities.append(k)
                return prefix[i] if i < len(prefix) else 0

        tape.install(T())
        key = _loc_key(c.find(json.loads(doc_text)))
        runs += 1
        if runs > 500000:
            raise inst.PreconditionNotMet("choice tree too large to confirm")
        if len(arities) > len(prefix):
            i = len(prefix)
            for v in range(arities[i]):
                stack.append(prefix + [v])
            continue
        if key == want:
            return True
    return "ordering %r is permitted by RFC 9535 but produced by no outcome of the random choices (%d outcomes enumerated)" % (want, runs)


def h_reach() -> bool:
    """Reachability twin: must be refuted (some outcome differs from document order)."""
    tape.install(tape.ChoiceTape())
    nodes = ENV.compile("$.*").find({"a": 1, "b": 2})
    return _loc_key(nodes) == (("a",), ("b",))


def selftest_tape() -> int:
    return tape.validate_tape()


def selftest_permitted() -> int:
    """The reference permitted sets against the expectations recorded in tests/test_nondeterminism.py (values)."""
    import importlib.util

    spec = importlib.util.spec_from_file_location("vt_nd", "/repo/tests/test_nondeterminism.py")
    m = importlib.util.module_from_spec(spec)
    spec.loader.exec_module(m)
    n = 0
    for case in m.TEST_CASES:
        doc = case.data
        perms = permitted(ref_parse(case.query), doc)

        def val(loc):
            v = doc
            for k in loc:
                v = v[k]
            return v

        got = sorted(set(json.dumps([val(l) for l in p]) for p in perms))
        want = sorted(set(json.dumps(list(w)) for w in case.want))
        assert got == want, (case.description, got[:3], want[:3])
        n += 1
    return n


SELFTESTS = [selftest_tape, selftest_permitted]

DOCS_QUICK = ['{"a": 1, "b": 2}', '[1, 2, 3]', '{"a": [1, 2], "b": {"c": 3}}', '{"a": {"b": 1, "c": 2}}', '[{"a": 1}, {"a": 2, "b": 3}]', '{"a": [1, [2]], "b": {"c": 3}}', '[[1], [2]]', '{"x": {"a": 1}, "a": {"a": 2}}', '{"a": 0, "b": [0]}', "7", "[]", "{}", "[[[0]], [1], [2]]", "[[1], [2], [3]]", "[[[1]], [[2]]]", "[[1, 2], [3]]"]
DOCS_MORE = ['{"a": {"b": {"c": 1}}, "d": [1, 2]}', '[{"a": [1, 2]}, {"b": {"a": 3}}]', '{"a": 1, "b": 2, "c": 3}', '{"a": [{"b": 1}, {"c": 2}], "d": 4}']
QUERIES = ["$.*", "$[*]", "$..*", "$..[*]", "$..a", "$..[0]", "$[?@]", "$[?@.a]", "$.*.*", "$..*.*", "$.a..*", "$[*, *]", "$..[?@.a]"]


def obligations(tier: str):
    obls = []
    docs = DOCS_QUICK + (DOCS_MORE if tier == "thorough" else [])
    queries = QUERIES + (["$..[*,*]"] if tier == "thorough" else [])
    t = 300 if tier == "quick" else 1200
    for qi, q in enumerate(queries):
        for di, d in enumerate(docs):
            obls.append({"id": "q%02d.d%02d" % (qi, di), "func": "h_valid", "params": {"query": q, "doc": d}, "timeout": t})
    obls.append({"id": "reach", "func": "h_reach", "timeout": 60, "expect": "refuted"})
    return obls


def r_exhaustive(query: str, doc: str):
    """Concrete regression witness: enumerate every tape on the real code; the produced set must equal the permitted set."""
    want = _perm(query, doc)
    c = ENV.compile(query)
    produced = set()
    stack = [[]]
    runs = 0
    while stack:
        prefix = stack.pop()
        arities: List[int] = []

        class T(tape.ChoiceTape):
            def draw(self, k):
                if k <= 1:
                    return 0
                i = self.n
                self.n += 1
                arities.append(k)
                return prefix[i] if i < len(prefix) else 0

        tape.install(T())
        key = _loc_key(c.find(json.loads(doc)))
        runs += 1
        if runs > 200000:
            return "choice tree too large"
        if len(arities) > len(prefix):
            i = len(prefix)
            for v in range(arities[i]):
                stack.append(prefix + [v])
            continue
        produced.add(key)
    if produced - want:
        return "%s on %s produced an ordering RFC 9535 does not permit: %r" % (query, doc, sorted(produced - want)[0])
    if want - produced:
        return "%s on %s: %d of %d permitted orderings are never produced, e.g. %r" % (query, doc, len(want - produced), len(want), sorted(want - produced)[0])
    return True
