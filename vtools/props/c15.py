"""C15 — all entry points agree: find, finditer, find_one, compile().apply, module-level (DESIGN §4 C15)."""
from __future__ import annotations

from typing import Any, Callable, List, Tuple, Union

import jsonpath_rfc9535 as jp
from jsonpath_rfc9535 import JSONPathEnvironment
from jsonpath_rfc9535.exceptions import JSONPathError

from vtools import evalh, hcommon, holes
from vtools.corpus import SEEDS
from vtools.inst import P, fresh
from vtools.ref.evalref import ref_eval

INFO = {
    "explanation": "(objects) a compiled query built from a template with symbolic integers/names is applied to a symbolic JSON value (leaves of every kind, strings included) through find, apply, "
    "finditer and find_one: find == apply == list(finditer), find_one is the first element or None, and all equal the reference evaluation. (texts) the query text is prefix + k symbolic characters + "
    "suffix (valid and invalid strings) and is evaluated on a small symbolic document through all 11 public call paths (module-level find/finditer/find_one/compile().x, environment methods, "
    "compiled-query methods): the same node list, find_one its head or None, or the same exception class from every path (lazily or eagerly).",
    "functions": ["__init__.find/finditer/find_one/compile (DEFAULT_ENV)", "environment.JSONPathEnvironment.find/finditer/find_one/compile", "query.JSONPathQuery.find/apply/finditer/find_one"],
    "bounds": {"quick": {"templates": "18 structural templates, documents depth <= 2 width <= 2 with leaves of every kind", "texts": "k=1 holes at every position of 14 seeds, documents of <= 2 children"},
               "thorough": {"templates": "all 30", "texts": "k=1 holes at every seed position, k=2 on 14 seeds"}},
    "models": ["as C01 / C04"],
    "outside": ["documents deeper/wider than the bound"],
    "assumptions": [],
}

ENV = JSONPathEnvironment()
TEMPLATES = [
    [("child", ["name"])], [("child", ["index"])], [("child", ["wild"])], [("child", ["slice"])], [("child", ["name"]), ("child", ["index"])], [("child", ["index"]), ("child", ["index"])],
    [("child", ["name"]), ("child", ["name"])], [("child", ["index"]), ("child", ["name"])], [("desc", ["index"])], [("desc", ["name"])], [("desc", ["wild"])], [("child", ["wild"]), ("child", ["index"])],
    [("child", ["name", "index"])], [("child", ["index", "index"])], [("child", ["name"]), ("child", ["wild"])], [("child", ["index"]), ("child", ["slice"])], [("desc", ["name"]), ("child", ["index"])], [],
]


def ch_setup() -> None:
    from vtools import chpatches

    if P.get("prefix") is not None:
        hcommon.install_text_models()
        return
    chpatches.install(slices=True, ints=False)
    chpatches.use_real_floats()
    chpatches.install_int_repr_placeholder()


def _key(nodes) -> List[Tuple]:
    return [(n.location, id(n.value) if isinstance(n.value, (list, dict)) else ("v", n.value)) for n in nodes]


def h_objects() -> Union[bool, str]:
    tpl = TEMPLATES[P["template"]]
    q, rast = evalh.build_query(tpl, ENV)
    # every scalar leaf of one document is of the same kind: all ints or all (<= 1 char) strings, chosen symbolically
    lk = 2 if hcommon.sym_choice("leafmode", 2) == 0 else 4
    doc = hcommon.sym_json("d", P["depth"], 2, kind=P.get("rootkind"), leaf_kind=lk, strlen=1, intbound=None, names=["a", "b"])
    if hcommon.symbolic_mode():
        doc = evalh.to_model_lists(doc)
    a = q.find(doc)
    b = q.apply(doc)
    c = list(q.finditer(doc))
    one = q.find_one(doc)
    expected = ref_eval(rast, doc)
    r = evalh.check_nodes(a, expected, doc)
    if r is not True:
        return "find(): %s on %r: %s" % (evalh.template_text(tpl), doc, r)
    ka = _key(a)
    if _key(b) != ka or _key(c) != ka:
        return "%s on %r: find/apply/finditer disagree: %r %r %r" % (evalh.template_text(tpl), doc, ka, _key(b), _key(c))
    if len(a) == 0:
        if one is not None:
            return "%s on %r: find() is empty but find_one() returned %r" % (evalh.template_text(tpl), doc, one.location)
    else:
        if one is None or _key([one]) != ka[:1]:
            return "%s on %r: find_one() is %r, first of find() is %r" % (evalh.template_text(tpl), doc, None if one is None else one.location, a[0].location)
    return True


def _outcome(fn: Callable[[], Any], mode: str):
    """("ok", key) or ("err", exception class name); finditer results are consumed, find_one wrapped in a list."""
    try:
        r = fn()
        if mode == "iter":
            r = list(r)
        elif mode == "one":
            return ("ok1", None if r is None else _key([r])[0])
        return ("ok", _key(r))
    except JSONPathError as e:
        return ("err", type(e).__name__)


def h_texts() -> Union[bool, str]:
    q = P["prefix"] + holes.fragment() + P["suffix"]
    # the symbolic dimension here is the query text; documents are two concrete shapes with every kind of value
    doc = [{"a": [1, "s", {"a": 2}], "b": 0}, [3, [4]], "t", 5, None] if P.get("wrap", "array") == "array" else {"a": [0, "s", {"a": 1, "b": [2]}], "b": {"a": "u"}, "": None}
    env = hcommon.model_env()
    plain = JSONPathEnvironment() if not hcommon.symbolic_mode() else env
    paths = [
        ("jp.find", lambda: (jp.find if not hcommon.symbolic_mode() else env.find)(q, doc), "list"),
        ("jp.finditer", lambda: (jp.finditer if not hcommon.symbolic_mode() else env.finditer)(q, doc), "iter"),
        ("jp.compile().find", lambda: (jp.compile if not hcommon.symbolic_mode() else env.compile)(q).find(doc), "list"),
        ("jp.compile().apply", lambda: (jp.compile if not hcommon.symbolic_mode() else env.compile)(q).apply(doc), "list"),
        ("jp.compile().finditer", lambda: (jp.compile if not hcommon.symbolic_mode() else env.compile)(q).finditer(doc), "iter"),
        ("env.find", lambda: plain.find(q, doc), "list"),
        ("env.finditer", lambda: plain.finditer(q, doc), "iter"),
        ("env.compile().find", lambda: plain.compile(q).find(doc), "list"),
    ]
    ones = [
        ("jp.find_one", lambda: (jp.find_one if not hcommon.symbolic_mode() else env.find_one)(q, doc), "one"),
        ("jp.compile().find_one", lambda: (jp.compile if not hcommon.symbolic_mode() else env.compile)(q).find_one(doc), "one"),
        ("env.find_one", lambda: plain.find_one(q, doc), "one"),
    ]
    base = _outcome(paths[0][1], paths[0][2])
    for nm, fn, mode in paths[1:]:
        o = _outcome(fn, mode)
        if o != base:
            return "%r: %s gives %r, jp.find gives %r" % (q, nm, o, base)
    for nm, fn, mode in ones:
        o = _outcome(fn, mode)
        if base[0] == "err":
            if o != base:
                return "%r: %s gives %r, jp.find raises %r" % (q, nm, o, base[1])
        else:
            want = ("ok1", base[1][0] if base[1] else None)
            if o != want:
                return "%r: %s gives %r, head of find() is %r" % (q, nm, o, want)
    return True


REUSE_TEXTS = ["$.items[?@.v <= $.limit]", "$.items[?@.v == $.items[0].v]", "$..v", "$.items[?$.flag].v", "$.items[?@.t[?@ == $.limit]]"]


def h_reuse() -> Union[bool, str]:
    """One compiled query object, applied before and after the document is updated in place (and to a second document),
    must agree at every point with the entry points that take the query text (module level / environment)."""
    text = REUSE_TEXTS[P["query"]]
    env = JSONPathEnvironment()
    c = env.compile(text)
    doc = {"limit": fresh(int, "l0"), "flag": 1, "items": [{"v": 3, "t": [1, 5]}, {"v": fresh(int, "v1"), "t": [5]}]}
    other = {"limit": 4, "items": [{"v": fresh(int, "o0"), "t": []}]}
    for step in range(3):
        cur = other if step == 1 else doc
        a = _key(c.find(cur))
        b = _key(c.apply(cur))
        it = _key(list(c.finditer(cur)))
        one = c.find_one(cur)
        m = _key(jp.find(text, cur))
        e = _key(env.find(text, cur))
        if not (a == b == it == m == e):
            return "step %d, %s on %r: compiled %r / apply %r / finditer %r, jp.find %r, env.find %r" % (step, text, cur, a, b, it, m, e)
        if (one is None) != (len(a) == 0) or (one is not None and _key([one]) != a[:1]):
            return "step %d, %s: find_one disagrees with find" % (step, text)
        if step == 0:
            doc["limit"] = fresh(int, "l1")
            doc["items"][0]["v"] = fresh(int, "v0b")
            if hcommon.sym_choice("dropflag", 2) == 1:
                del doc["flag"]
    return True


def h_reach() -> bool:
    """Reachability twin: must be refuted (find_one returns a node for some input)."""
    q, _r = evalh.build_query([("child", ["index"])], ENV)
    doc = hcommon.sym_json("d", 1, 2, kind=5, strlen=1, names=["a"])
    return q.find_one(doc) is None


TEXT_SEEDS = ["$", "$.a", "$[0]", "$.a[0]", "$[0].a", "$..a", "$[*]", "$[1:]", "$[?@.a]", "$[?@.a == 1]", "$.a[?@ > 0]", "$[0, 0]", "$['a', 0]", "$..[0]"]
SELFTESTS = []


def obligations(tier: str):
    obls = []
    t = 300 if tier == "quick" else 1200
    for ti, tpl in enumerate(TEMPLATES):
        if tier == "quick" and len(tpl) > 1 and any("slice" in specs for _k, specs in tpl):
            continue
        for rk, rkn in ((None, "any"),):
            for depth in ((1, 2) if len(tpl) > 1 or any(k == "desc" for k, _s in tpl) else (1,)):
                if depth == 1 and (len(tpl) > 1):
                    continue
                for root in (4, 5, 6):
                    obls.append({"id": "obj.t%02d.d%d.%s" % (ti, depth, hcommon.KIND_NAMES[root]), "func": "h_objects", "params": {"template": ti, "depth": depth, "rootkind": root}, "timeout": t})
    for qi in range(len(REUSE_TEXTS)):
        obls.append({"id": "reuse.q%d" % qi, "func": "h_reuse", "params": {"query": qi}, "timeout": t})
    obls.append({"id": "reach", "func": "h_reach", "timeout": 60, "expect": "refuted"})
    seeds = TEXT_SEEDS if tier == "quick" else SEEDS
    for j, (pre, suf) in enumerate(holes.hole_instances(seeds)):
        obls.append({"id": "text%04d.k1" % j, "func": "h_texts", "params": {"prefix": pre, "suffix": suf, "k": 1, "wrap": "array" if j % 2 == 0 else "object"}, "timeout": t})
    if tier == "thorough":
        for j, (pre, suf) in enumerate(holes.hole_instances(TEXT_SEEDS)):
            obls.append({"id": "text%04d.k2" % j, "func": "h_texts", "params": {"prefix": pre, "suffix": suf, "k": 2, "wrap": "array"}, "timeout": t})
    return obls
