"""C19 — reported error positions are real positions in the query text (DESIGN §4 C19)."""
from __future__ import annotations

from typing import Union

from jsonpath_rfc9535.exceptions import JSONPathSyntaxError
from jsonpath_rfc9535.tokens import Token, TokenType

from vtools import hcommon, holes
from vtools.corpus import SEEDS
from vtools.inst import P, assume, fresh

INFO = {
    "explanation": "(unit) Token.position() and JSONPathError.__str__ executed symbolically for every query text of up to 5 characters over all scalar values (LF/CR included) and every offset, "
    "against the line/column of that offset; (integration) compile() executed on prefix + symbolic characters + suffix - arbitrary characters at every position of valid seeds, and symbolic blank "
    "characters (SP/HT/LF/CR) at every position of multi-line and erroneous seeds - asserting, whenever it raises, that the error carries an offset inside the text and that str(error) ends with "
    "exactly that offset's ', line L, column C'.",
    "functions": ["tokens.Token.position", "exceptions.JSONPathError.__str__", "lex.Lexer.error/emit/backup/ignore_whitespace", "lex.tokenize", "tokens.TokenStream.expect*", "parse.Parser.* (raise sites)", "environment.check_well_typedness (raise sites)"],
    "bounds": {"quick": {"unit": "text <= 4 chars", "holes": "k=1 (any char) at every position of the valid seeds; k=1 and k=2 blanks at every position of the erroneous seeds; k=1 (any char) at every position of 16 escape-error seeds whose literal content changes length on decoding"},
               "thorough": {"unit": "text <= 5 chars", "holes": "k=2 (any char) at every position; k=2 blanks; k=3 blanks in erroneous seeds"}},
    "models": ["as C04"],
    "outside": ["texts further than k characters from a seed", "CR is an ordinary character for line counting (the convention the library and its tests use: lines are separated by LF)"],
    "assumptions": ["line numbers are 1-based, columns 0-based (fixed by tests/test_errors.py)"],
}

# queries that are rejected, with the error at different places and of different classes
BAD_SEEDS = [
    "$.a.b[",
    "$[?@.a == ]",
    "$[?@.a == 1 && ]",
    "$.a\n.b\n[?@.c ==\n =]",
    "$[\n 'a',\n 01\n]",
    "$[?foo(@.a)]",
    "$[?length(@.*) == 1]",
    "$[?count(1) == 1]",
    "$[?length(@.a)]",
    "$[9007199254740992]",
    "$[1:2:9007199254740992]",
    "$[?@.a == 'x\\q']",
    "$['\\uD800']",
    "$[?@.a\n==\n1.]",
    "$ .a ..",
    "$[?(@.a]",
    "$[?@.a)]",
    "$[?match(@.a, 'x',)]",
    "$[?@.* == 1]",
    "$[?!1]",
    "$[0,]",
    "$[?@.a == 1 == 2]",
    "$.a b",
    "a",
    "$[?true]",
    "$[?@.a == (1)]",
]


# erroneous escapes behind content whose decoded / re-escaped length differs from its length in the query (added after seeded
# change C19-r3: an offset taken in the re-escaped copy of a single-quoted literal ran past the end of the query once eight or
# more double quotes preceded the bad escape)
_BAD_TAILS = ["\\uD83D", "\\uD83D\\u0041", "\\uDC00", "\\uD83", "\\q"]
ESCAPE_BAD_SEEDS = (["$['" + '"' * 10 + t + "']" for t in _BAD_TAILS] + ['$["' + "'" * 10 + t + '"]' for t in _BAD_TAILS]
                    + ["$[?@.a ==\n'" + '"' * 10 + t + "'\n]" for t in _BAD_TAILS[:2]] + ["$['" + "\\'" * 5 + t + "']" for t in _BAD_TAILS[:2]])


def ch_setup() -> None:
    hcommon.install_text_models()


def h_unit() -> Union[bool, str]:
    """Token.position() == (line, column) of the token's offset in its query text."""
    n = P["n"]
    q = hcommon.sym_fragment(n, "q")
    idx = fresh(int, "idx")
    ln = fresh(int, "len")
    assume(0 <= idx <= n)
    assume(0 <= ln and idx + ln <= n)
    tok = Token(TokenType.ERROR, q[idx: idx + ln], idx, q, "msg")
    want = holes.line_col(q, idx)
    got = tok.position()
    if got != want:
        return "position of offset %r in %r is %r, expected %r" % (idx, q, got, want)
    msg = str(JSONPathSyntaxError("boom", token=tok))
    exp = "boom, line %d, column %d" % want
    if msg != exp:
        return "message %r, expected %r" % (msg, exp)
    return True


def h_reach() -> bool:
    """Reachability twin: must be refuted (some offset lies on line 2)."""
    q = hcommon.sym_fragment(3, "q")
    tok = Token(TokenType.ERROR, "", 2, q, "msg")
    return tok.position()[0] == 1


SELFTESTS = []
BLANKS = [" ", "\t", "\n", "\r"]


def obligations(tier: str):
    obls = []
    for n in range(0, 5 if tier == "quick" else 6):
        obls.append({"id": "unit.n%d" % n, "func": "h_unit", "params": {"n": n}, "timeout": 300 if tier == "quick" else 1800})
    obls.append({"id": "unit.reach", "func": "h_reach", "timeout": 60, "expect": "refuted"})
    for j, (pre, suf) in enumerate(holes.hole_instances(SEEDS)):
        obls.append(holes.obligation("seed%04d.k1" % j, pre, suf, 1, "position", 120))
        if tier == "thorough" and j % 3 == 0:
            obls.append(holes.obligation("seed%04d.k2" % j, pre, suf, 2, "position", 600))
    for j, (pre, suf) in enumerate(holes.hole_instances(BAD_SEEDS, replace=(0,))):
        obls.append(holes.obligation("bad%04d.b1" % j, pre, suf, 1, "position", 120, alphabet=BLANKS))
        obls.append(holes.obligation("bad%04d.b2" % j, pre, suf, 2, "position", 300, alphabet=BLANKS))
        if tier == "thorough":
            if j % 2 == 0:
                obls.append(holes.obligation("bad%04d.b3" % j, pre, suf, 3, "position", 600, alphabet=BLANKS))
    for j, (pre, suf) in enumerate(holes.hole_instances(BAD_SEEDS, replace=(1,))):
        obls.append(holes.obligation("bad%04d.k1" % j, pre, suf, 1, "position", 120))
    for j, (pre, suf) in enumerate(holes.hole_instances(ESCAPE_BAD_SEEDS, replace=(1,))):
        obls.append(holes.obligation("esc%04d.k1" % j, pre, suf, 1, "position", 120))
    return obls
