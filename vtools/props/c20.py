"""C20 — the command-line tool is a faithful, well-behaved front end to find() (in-process part; DESIGN §4 C20, §5)."""
from __future__ import annotations

import argparse
import io
import json
import sys
from typing import Any, Dict, Union

import jsonpath_rfc9535 as jp
from jsonpath_rfc9535 import cli
from jsonpath_rfc9535.exceptions import JSONPathError

from vtools import hcommon, holes
from vtools.inst import P, fresh

INFO = {
    "explanation": "handle_path_command() is driven in-process with an argparse.Namespace: the query is prefix + k symbolic characters + suffix (valid queries, every JSONPathError class incl. unknown "
    "function names, out-of-range indices, type errors), given inline or through a query file object; the target document is drawn from a pool of JSON texts (ASCII, non-ASCII, lone surrogate "
    "escapes, nesting deeper than the recursion limit, invalid JSON, bytes that are not UTF-8) in a binary stream; the output is a text stream with UTF-8 or ASCII encoding on top of a byte buffer "
    "(as real files/terminals are); --pretty is a symbolic boolean. Postcondition on every path: success => the bytes written parse to find(query, document).values() with the requested indentation, "
    "nothing on stderr, no SystemExit; any library error or undecodable document => SystemExit with a non-zero code, exactly one line on stderr, nothing written to the output; no other exception "
    "escapes when --debug is off.",
    "functions": ["cli.handle_path_command", "cli.setup_parser (option names only)", "environment.JSONPathEnvironment.compile", "query.JSONPathQuery.find", "node.JSONPathNodeList.values"],
    "bounds": {"quick": {"query": "k=1 holes at every position of 10 seeds + concrete error-class queries", "documents": "pool of 9", "options": "pretty x inline/file x utf-8/ascii output"},
               "thorough": {"query": "k=1 at every position of the seed corpus, k=2 on 10 seeds", "documents": "pool of 9"}},
    "models": ["as C04 for the query text"],
    "outside": ["process level: python -m, argparse.FileType, real stdin/stdout encodings, 'uncaught exception => traceback + exit status 1' are CPython/OS behaviour outside symbolic reach (DESIGN section 5); the claim is about handle_path_command in-process"],
    "assumptions": ["output streams encode text as UTF-8 or ASCII with strict errors"],
}

DOCS = {
    "ascii": b'{"a": [1, {"b": "x"}, [2, 3]], "b": {"a": null}, "c": "s"}',
    "nonascii": '{"a": ["é", {"b": "中\U0001F600"}], "ü": 1}'.encode("utf-8"),
    "surrogate": b'{"a": ["\\ud83d", {"b": "\\udc00x"}], "b": "\\ud83d\\ude00"}',
    "scalar": b"42",
    "deep": ("[" * 120 + "]" * 120).encode(),
    "invalid_json": b'{"a": [1, 2',
    "empty": b"",
    "not_utf8": b'{"a": "\xff\xfe"}',
    "utf16": '{"a": [1, "é"]}'.encode("utf-16"),
}
SEEDS = ["$", "$.a", "$.a[0]", "$..b", "$.a[?@.b]", "$[?@.a == null]", "$.a[1:]", "$..*", "$.a[?length(@) > 1]", "$['a', 'b']"]
ERROR_QUERIES = ["$[?foo(@)]", "$[9007199254740992]", "$[?length(@.*) == 1]", "$[?count(1) == 1]", "$.a[", "", "$[?@.a ==]", "$[?match(@.a)]", "$..[?nope(@.a, 1)]", "$[1:2:9007199254740992]", "$[?length(@.a)]", "$ .a .b ["]


def ch_setup() -> None:
    hcommon.install_text_models()


class _OutText:
    """Output text stream over a byte buffer, written in Python: encodes strictly at write time like io.TextIOWrapper."""

    def __init__(self, enc: str) -> None:
        self.enc = enc
        self.parts = []

    def write(self, s):
        if not isinstance(s, str):
            raise TypeError("write() argument must be str")
        for ch in s:
            o = ord(ch)
            if (self.enc == "ascii" and o > 127) or (0xD800 <= o <= 0xDFFF):
                raise UnicodeEncodeError(self.enc, str(ch), 0, 1, "character not encodable")
        self.parts.append(s)
        return len(s)

    def flush(self):
        pass

    def getvalue(self) -> bytes:
        return "".join(self.parts).encode(self.enc)


class _Err:
    """stderr stand-in written in Python (a C-level StringIO refuses the executor's symbolic strings)."""

    def __init__(self) -> None:
        self.parts = []

    def write(self, s):
        if not isinstance(s, str):
            raise TypeError("write() argument must be str")
        self.parts.append(s)
        return len(s)

    def flush(self):
        pass

    def getvalue(self):
        return "".join(self.parts)


def _run(query: str, doc: bytes, pretty: bool, via_file: bool, enc: str):
    if hcommon.symbolic_mode():
        out = _OutText(enc)
        raw = None
    else:
        raw = io.BytesIO()
        out = io.TextIOWrapper(raw, encoding=enc, errors="strict", newline="")
    err = _Err()
    ns = argparse.Namespace(query=None if via_file else query, query_file=io.StringIO(query + ("\n" if via_file else "")) if via_file else None,
                            file=io.BytesIO(doc), output=out, pretty=pretty, debug=False)
    saved = sys.stderr
    sys.stderr = err
    code: Any = None
    exc = None
    try:
        try:
            cli.handle_path_command(ns)
        except SystemExit as e:
            code = e.code if e.code is not None else 0
        except Exception as e:  # noqa: BLE001 - a traceback in the real tool
            exc = e
    finally:
        sys.stderr = saved
    try:
        out.flush()
    except Exception as e:  # noqa: BLE001
        if exc is None:
            exc = e
    return code, exc, (raw.getvalue() if raw is not None else out.getvalue()), err.getvalue()


def _expected(query: str, doc: bytes):
    """("ok", values) or ("fail",) by the library API itself."""
    try:
        data = json.loads(doc)
    except (ValueError, UnicodeDecodeError):
        return ("fail", None)
    try:
        return ("ok", jp.JSONPathEnvironment().find(query, data).values())
    except JSONPathError:
        return ("fail", None)


def _judge(query, doc_name, pretty, via_file, enc) -> Union[bool, str]:
    doc = DOCS[doc_name]
    q_eff = query.strip() if via_file else query
    exp = _expected(q_eff, doc)
    code, exc, written, errtxt = _run(query, doc, pretty, via_file, enc)
    what = "query %r document %s pretty=%r via_file=%r output=%s" % (query, doc_name, pretty, via_file, enc)
    if exc is not None:
        return "%s: %s escaped handle_path_command (a traceback for the user): %s" % (what, type(exc).__name__, str(exc)[:120])
    if exp[0] == "ok":
        if code not in (None, 0):
            return "%s: exit status %r although find() succeeds (stderr %r)" % (what, code, errtxt[:120])
        if errtxt != "":
            return "%s: wrote to stderr on success: %r" % (what, errtxt[:120])
        try:
            back = json.loads(written.decode(enc))
        except ValueError:
            return "%s: output is not JSON: %r" % (what, written[:80])
        if back != exp[1]:
            return "%s: output %r differs from find().values() %r" % (what, back, exp[1])
        want_text = json.dumps(exp[1], indent=cli.INDENT if pretty else None)
        if json.loads(want_text) != back or (("\n" in written.decode(enc)) != ("\n" in want_text)):
            return "%s: indentation does not follow --pretty" % (what,)
        return True
    if code in (None, 0):
        return "%s: exit status %r although the library rejects the query/document" % (what, code)
    if written != b"":
        return "%s: partial result %r written although the run failed" % (what, written[:80])
    lines = [ln for ln in errtxt.split("\n") if ln != ""]
    if len(lines) != 1 or not errtxt.endswith("\n"):
        return "%s: diagnostic is not exactly one line: %r" % (what, errtxt[:200])
    if "Traceback" in errtxt:
        return "%s: traceback without --debug" % (what,)
    return True


def h_cli() -> Union[bool, str]:
    query = P["prefix"] + holes.fragment() + P["suffix"]
    pretty = fresh(bool, "pretty")
    via_file = P.get("via_file", False)
    return _judge(query, P["doc"], pretty, via_file, P.get("encoding", "utf-8"))


def r_cli(query, doc, pretty=False, via_file=False, encoding="utf-8"):
    return _judge(query, doc, pretty, via_file, encoding)


def c_argparse():
    """Supplementary *finite enumeration* (not symbolic): the option plumbing of setup_parser()/main() with real files -
    query inline (-q) or in a file (-r), document from a file (-f) in every encoding json.load accepts for bytes
    (UTF-8, UTF-8 with BOM refused by json, UTF-16, UTF-32, non-ASCII), output to a file (-o) or captured stdout,
    with and without --pretty; compared with find().values()."""
    import contextlib
    import os
    import tempfile

    from vtools import inst

    base = os.path.join(inst.VERIF_DIR, "replays")
    os.makedirs(base, exist_ok=True)
    bad = []
    n = 0
    data = {"a": [1, "é", {"b": "中\U0001F600"}], "ü": None}
    text = json.dumps(data, ensure_ascii=False)
    encodings = {"utf-8": text.encode("utf-8"), "utf-16": text.encode("utf-16"), "utf-16-le": text.encode("utf-16-le"), "utf-32": text.encode("utf-32"), "ascii-escaped": json.dumps(data).encode("ascii")}
    queries = ["$.a[*]", "$..b", "$['ü']", "$.a[?@.b]", "$"]
    with tempfile.TemporaryDirectory(dir=base) as tmp:
        for enc, raw in encodings.items():
            fpath = os.path.join(tmp, "doc_%s.json" % enc)
            with open(fpath, "wb") as fd:
                fd.write(raw)
            for qi, q in enumerate(queries):
                for pretty in (False, True):
                    for qfile in (False, True):
                        for outfile in (False, True):
                            argv = ["--pretty"] if pretty else []
                            if qfile:
                                qp = os.path.join(tmp, "q%d.txt" % qi)
                                with open(qp, "w", encoding="utf-8") as fd:
                                    fd.write(q + "\n")
                                argv += ["-r", qp]
                            else:
                                argv += ["-q", q]
                            argv += ["-f", fpath]
                            opath = os.path.join(tmp, "out.json")
                            if outfile:
                                argv += ["-o", opath]
                            out, err = io.StringIO(), io.StringIO()
                            code = 0
                            try:
                                with contextlib.redirect_stdout(out), contextlib.redirect_stderr(err):
                                    args = cli.setup_parser().parse_args(argv)
                                    try:
                                        args.func(args)
                                    finally:
                                        for f in (args.file, args.output, getattr(args, "query_file", None)):
                                            if f is not None and f not in (sys.stdout, sys.stdin) and hasattr(f, "close") and not isinstance(f, io.StringIO):
                                                try:
                                                    f.close()
                                                except Exception:  # noqa: BLE001
                                                    pass
                            except SystemExit as e:
                                code = e.code or 0
                            except Exception as e:  # noqa: BLE001
                                bad.append((argv, "escaped %s: %s" % (type(e).__name__, str(e)[:80])))
                                continue
                            n += 1
                            want = jp.find(q, data).values()
                            got_text = open(opath, encoding="utf-8").read() if outfile else out.getvalue()
                            if code != 0:
                                bad.append((argv, "exit %r: %s" % (code, err.getvalue()[:100])))
                                continue
                            try:
                                if json.loads(got_text) != want:
                                    bad.append((argv, "output %r differs from %r" % (got_text[:60], want)))
                            except ValueError:
                                bad.append((argv, "output is not JSON: %r" % (got_text[:60],)))
    if bad:
        return {"status": "refuted", "failure": "CLI plumbing: %r" % (bad[:3],), "replay_module": "vtools.props.c20", "replay_func": "r_argparse", "replay_args": {}}
    return {"status": "confirmed", "paths": n, "confirmed_paths": n, "queries": [{"claim": "%d real-file CLI runs (5 encodings x 5 queries x pretty x -q/-r x stdout/-o) equal find().values()" % n, "result": "finite enumeration"}]}


def r_argparse():
    r = c_argparse()
    return True if r["status"] == "confirmed" else r["failure"]


def h_reach() -> bool:
    """Reachability twin: must be refuted (some run fails with a diagnostic)."""
    q = "$.a[" + holes.fragment() + "]"
    code, exc, written, errtxt = _run(q, DOCS["ascii"], False, False, "utf-8")
    return code in (None, 0)


SELFTESTS = []


def obligations(tier: str):
    obls = []
    t = 300 if tier == "quick" else 1200
    from vtools.corpus import SEEDS as ALL

    seeds = SEEDS
    docs_main = ["ascii", "nonascii", "surrogate"]
    for j, (pre, suf) in enumerate(holes.hole_instances(seeds, replace=(1,) if tier == "quick" else (0, 1))):
        d = docs_main[j % 3]
        obls.append({"id": "hole%04d.%s" % (j, d), "func": "h_cli", "params": {"prefix": pre, "suffix": suf, "k": 1, "doc": d, "via_file": j % 4 == 1, "encoding": "ascii" if j % 2 else "utf-8"}, "timeout": 300})
        if tier == "thorough" and j % 4 == 0:
            obls.append({"id": "hole%04d.k2.%s" % (j, d), "func": "h_cli", "params": {"prefix": pre, "suffix": suf, "k": 2, "doc": d, "via_file": False, "encoding": "utf-8"}, "timeout": 600})
    for qi, q in enumerate(SEEDS + ERROR_QUERIES):
        for d in DOCS:
            for enc in ("utf-8", "ascii"):
                obls.append({"id": "conc%02d.%s.%s" % (qi, d, enc), "func": "h_cli", "params": {"prefix": q, "suffix": "", "k": 0, "doc": d, "via_file": (qi + len(d)) % 2 == 0, "encoding": enc}, "timeout": 120})
    obls.append({"id": "argparse_files", "kind": "concrete", "func": "c_argparse", "timeout": 300})
    obls.append({"id": "reach", "module": "vtools.props.c20", "func": "h_reach", "params": {"k": 1}, "timeout": 60, "expect": "refuted"})
    return obls
