"""C20 — the command-line tool is a faithful, well-behaved front end to find() (in-process part; DESIGN §4 C20, §5)."""
from __future__ import annotations

import argparse
import io
import json
import sys
from typing import Any, Dict, Union

import jsonpath_rfc9535 as jp
from jsonpath_rfc9535 import cli
from jsonpath_rfc9535.exceptions import JSONPathError

from vtools import hcommon, holes
from vtools.inst import P, fresh

INFO = {
    "explanation": "handle_path_command() is driven in-process with an argparse.Namespace: the query is prefix + k symbolic characters + suffix (valid queries, every JSONPathError class incl. unknown "
    "function names, out-of-range indices, type errors), given inline or through a query file object; the target document is drawn from a pool of JSON texts (ASCII, non-ASCII, lone surrogate "
    "escapes, nesting deeper than the recursion limit, invalid JSON, bytes that are not UTF-8) in a binary stream; the output is a text stream with UTF-8 or ASCII encoding on top of a byte buffer "
    "(as real files/terminals are); --pretty is a symbolic boolean. Postcondition on every path: success => the bytes written parse to find(query, document).values() with the requested indentation, "
    "nothing on stderr, no SystemExit; any library error or undecodable document => SystemExit with a non-zero code, exactly one line on stderr, nothing written to the output; no other exception "
    "escapes when --debug is off.",
    "functions": ["cli.handle_path_command", "cli.setup_parser (option names only)", "environment.JSONPathEnvironment.compile", "query.JSONPathQuery.find", "node.JSONPathNodeList.values"],
    "bounds": {"quick": {"query": "k=1 holes at every position of 10 seeds + concrete error-class queries", "documents": "pool of 9", "options": "pretty x inline/file x utf-8/ascii output"},
               "thorough": {"query": "k=1 at every position of the seed corpus, k=2 on 10 seeds", "documents": "pool of 9"}},
    "models": ["as C04 for the query text"],
    "outside": ["process level: python -m, argparse.FileType, real stdin/stdout encodings, 'uncaught exception => traceback + exit status 1' are CPython/OS behaviour outside symbolic reach (DESIGN section 5); the claim is about handle_path_command in-process"],
    "assumptions": ["output streams encode text as UTF-8 or ASCII with strict errors"],
}

DOCS = {
    "ascii": b'{"a": [1, {"b": "x"}, [2, 3]], "b": {"a": null}, "c": "s"}',
    "nonascii": '{"a": ["é", {"b": "中\U0001F600"}], "ü": 1}'.encode("utf-8"),
    "surrogate": b'{"a": ["\\ud83d", {"b": "\\udc00x"}], "b": "\\ud83d\\ude00"}',
    "scalar": b"42",
    "deep": ("[" * 120 + "]" * 120).encode(),
    "invalid_json": b'{"a": [1, 2',
    "empty": b"",
    "not_utf8": b'{"a": "\xff\xfe"}',
    "utf16": '{"a": [1, "é"]}'.encode("utf-16"),
}
SEEDS = ["$", "$.a", "$.a[0]", "$..b", "$.a[?@.b]", "$[?@.a == null]", "$.a[1:]", "$..*", "$.a[?length(@) > 1]", "$['a', 'b']"]
ERROR_QUERIES = ["$[?foo(@)]", "$[9007199254740992]", "$[?length(@.*) == 1]", "$[?count(1) == 1]", "$.a[", "", "$[?@.a ==]", "$[?match(@.a)]", "$..[?nope(@.a, 1)]", "$[1:2:9007199254740992]", "$[?length(@.a)]", "$ .a .b ["]


def ch_setup() -> None:
    hcommon.install_text_models()


class _OutText:
    """Output text stream over a byte buffer, written in Python: encodes strictly at write time like io.TextIOWrapper."""

    def __init__(self, enc: str) -> None:
        self.enc = enc
        self.parts = []

    def write(self, s):
        if not isinstance(s, str):
            raise TypeError("write() argument must be str")
        for ch in s:
            o = ord(ch)
            if (self.enc == "ascii" and o > 127) or (0xD800 <= o <= 0xDFFF):
                raise UnicodeEncodeError(self.enc, str(ch), 0, 1, "character not encodable")
        self.parts.append(s)
        return len(s)

    def flush(self):
        pass

    def getvalue(self) -> bytes:
        return "".join(self.parts).encode(self.enc)


class _Err:
    """stderr stand-in written in Python (a C-level StringIO refuses the executor's symbolic strings)."""

    def __init__(self) -> None:
        self.parts = []

    def write(self, s):
        if not isinstance(s, str):
            raise TypeError("write() argument must be str")
        self.parts.append(s)
        return len(s)

    def flush(self):
        pass

    def getvalue(self):
        return "".join(self.parts)


def _run(query: str, doc: bytes, pretty: bool, via_file: bool, enc: str):
    if hcommon.symbolic_mode():
        out = _OutText(enc)
        raw = None
    else:
        raw = io.BytesIO()
        out = io.TextIOWrapper(raw, encoding=enc, errors="strict", newline="")
    err = _Err()
    ns = argparse.Namespace(query=None if via_file else query, query_file=io.StringIO(query + ("\n" if via_file else "")) if via_file else None,
                            file=io.BytesIO(doc), output=out, pretty=pretty, debug=False)
    saved = sys.stderr
    sys.stderr = err
    code: Any = None
    exc = None
    try:
        try:
            cli.handle_path_command(ns)
        except SystemExit as e:
            code = e.code if e.code is not None else 0
        except Exception as e:  # noqa: BLE001 - a traceback in the real tool
            exc = e
    finally:
        sys.stderr = saved
    try:
        out.flush()
    except Exception as e:  # noqa: BLE001
        if exc is None:
            exc = e
    return code, exc, (raw.getvalue() if raw is not None else out.getvalue()), err.getvalue()


def _expected(query: str, doc: bytes):
    """("ok", values) or ("fail",) by the library API itself."""
    try:
        data = json.loads(doc)
    except (ValueError, UnicodeDecodeError):
        return ("fail", None)
    try:
        return ("ok", jp.JSONPathEnvironment().find(query, data).values())
    except JSONPathError:
        return ("fail", None)


def _judge(query, doc_name, pretty, via_file, enc) -> Union[bool, str]:
    doc = DOCS[doc_name]
    q_eff = query.strip() if via_file else query
    exp = _expected(q_eff, doc)
    code, exc, written, errtxt = _run(query, doc, pretty, via_file, enc)
    what = "query %r document %s pretty=%r via_file=%r output=%s" % (query, doc_name, pretty, via_file, enc)
    if exc is not None:
        return "%s: %s escaped handle_path_command (a traceback for the user): %s" % (what, type(exc).__name__, str(exc)[:120])
    if exp[0] == "ok":
        if code not in (None, 0):
            return "%s: exit status %r although find() succeeds (stderr %r)" % (what, code, errtxt[:120])
        if errtxt != "":
            return "%s: wrote to stderr on success: %r" % (what, errtxt[:120])
        try:
            back = json.loads(written.decode(enc))
        except ValueError:
            return "%s: output is not JSON: %r" % (what, written[:80])
        if back != exp[1]:
            return "%s: output %r differs from find().values() %r" % (what, back, exp[1])
        want_text = json.dumps(exp[1], indent=cli.INDENT if pretty else None)
        if json.loads(want_text) != back or (("\n" in written.decode(enc)) != ("\n" in want_text)):
            return "%s: indentation does not follow --pretty" % (what,)
        return True
    if code in (None, 0):
        return "%s: exit status %r although the library rejects the query/document" % (what, code)
    if written != b"":
        return "%s: partial result %r written although the run failed" % (what, written[:80])
    lines = [ln for ln in errtxt.split("\n") if ln != ""]
    if len(lines) != 1 or not errtxt.endswith("\n"):
        return "%s: diagnostic is not exactly one line: %r" % (what, errtxt[:200])
    if "Traceback" in errtxt:
        return "%s: traceback without --debug" % (what,)
    return True


def h_cli() -> Union[bool, str]:
    query = P["prefix"] + holes.fragment() + P["suffix"]
    pretty = fresh(bool, "pretty")
    via_file = P.get("via_file", False)
    return _judge(query, P["doc"], pretty, via_file, P.get("encoding", "utf-8"))


def r_cli(query, doc, pretty=False, via_file=False, encoding="utf-8"):
    return _judge(query, doc, pretty, via_file, encoding)


def h_reach() -> bool:
    """Reachability twin: must be refuted (some run fails with a diagnostic)."""
    q = "$.a[" + holes.fragment() + "]"
    code, exc, written, errtxt = _run(q, DOCS["ascii"], False, False, "utf-8")
    return code in (None, 0)


SELFTESTS = []


def obligations(tier: str):
    obls = []
    t = 300 if tier == "quick" else 3000
    from vtools.corpus import SEEDS as ALL

    seeds = SEEDS if tier == "quick" else ALL
    docs_main = ["ascii", "nonascii", "surrogate"]
    for j, (pre, suf) in enumerate(holes.hole_instances(seeds, replace=(1,) if tier == "quick" else (0, 1))):
        d = docs_main[j % 3]
        obls.append({"id": "hole%04d.%s" % (j, d), "func": "h_cli", "params": {"prefix": pre, "suffix": suf, "k": 1, "doc": d, "via_file": j % 4 == 1, "encoding": "ascii" if j % 2 else "utf-8"}, "timeout": t})
    for qi, q in enumerate(SEEDS + ERROR_QUERIES):
        for d in DOCS:
            for enc in ("utf-8", "ascii"):
                obls.append({"id": "conc%02d.%s.%s" % (qi, d, enc), "func": "h_cli", "params": {"prefix": q, "suffix": "", "k": 0, "doc": d, "via_file": (qi + len(d)) % 2 == 0, "encoding": enc}, "timeout": 120})
    obls.append({"id": "reach", "module": "vtools.props.c20", "func": "h_reach", "params": {"k": 1}, "timeout": 60, "expect": "refuted"})
    return obls
