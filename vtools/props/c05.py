"""C05 — validity rules: function well-typedness, singular comparands, integer range (DESIGN §4 C05)."""
from __future__ import annotations

import itertools
from typing import Dict, List, Tuple, Union

from jsonpath_rfc9535 import JSONPathEnvironment
from jsonpath_rfc9535.exceptions import JSONPathError
from jsonpath_rfc9535.function_extensions import ExpressionType, FilterFunction

from vtools import hcommon, holes
from vtools.inst import P, assume, fresh
from vtools.props import c07
from vtools.ref.astnf import astnf_query, ref_nf
from vtools.ref.grammar import BUILTIN_SIGNATURES, LOGICAL, NODES, VALUE, RefInvalid, RefParser, RefSyntaxError
from vtools.ref.selftest import oracle_selftest

INFO = {
    "explanation": "Typing: compile() on an environment with user-registered functions is compared with the RFC 9535 section 2.4.3 typing judgement of the reference model for every signature over "
    "{Value,Logical,Nodes}^n -> type (n <= 2), in 8 syntactic positions (test, under '!', either side of '&&'/'||', in parentheses, either side of a comparison, argument of another call) and 9 argument "
    "expression kinds per parameter; signature/position/argument kind are symbolic choice variables the executor forks on (finite dimensions), function names in call position are symbolic characters "
    "(solver-decided against the registry). Integer range: environment bounds lo <= hi and every index/slice component are unbounded solver variables (constructor guards, also proved for all ints "
    "by z3 from the source), and literal spellings around +/-(2^53-1) have symbolic digits end-to-end through compile().",
    "functions": ["environment.validate_function_extension_signature", "environment.check_well_typedness", "environment._function_return_type", "parse.Parser.parse_function_extension", "parse.Parser.parse_filter_selector",
                  "parse.Parser.parse_infix_expression", "parse.Parser.parse_prefix_expression", "parse.Parser._raise_for_non_comparable_function", "parse.Parser._raise_for_non_test_expression", "query.JSONPathQuery.singular_query",
                  "selectors.IndexSelector.__init__", "selectors.SliceSelector._check_range"],
    "bounds": {"quick": {"signatures": "all 39 with n<=2", "positions": 8, "argument kinds": "9 per parameter, varied one parameter at a time", "names": "<= 3 symbolic characters", "integers": "unbounded (guards); last 1-2 digits symbolic (spellings)"},
               "thorough": {"signatures": "all 39", "argument kinds": "all pairs for n=2", "names": "<= 3", "integers": "last 3 digits symbolic"}},
    "models": ["as C04"],
    "outside": ["functions with more than 2 parameters", "typing positions nested deeper than one level beyond those enumerated"],
    "assumptions": ["registered functions are FilterFunction subclasses with arg_types/return_type"],
}

TMAP = {VALUE: ExpressionType.VALUE, LOGICAL: ExpressionType.LOGICAL, NODES: ExpressionType.NODES}
TYPES = [VALUE, LOGICAL, NODES]
SIGNATURES: List[Tuple[Tuple[str, ...], str]] = []
for n in range(3):
    for params in itertools.product(TYPES, repeat=n):
        for ret in TYPES:
            SIGNATURES.append((tuple(params), ret))

# helper functions always present next to the function under test "f"
HELPERS: Dict[str, Tuple[Tuple[str, ...], str]] = {"vv": ((VALUE,), VALUE), "ll": ((VALUE,), LOGICAL), "nn": ((NODES,), NODES)}

# argument expression kinds (text, description)
ARG_KINDS = [
    ("1", "literal"),
    ("@.a", "singular query"),
    ("@.*", "non-singular query"),
    ("vv(@.a)", "ValueType call"),
    ("ll(@.a)", "LogicalType call"),
    ("nn(@.*)", "NodesType call"),
    ("@.a == 1", "comparison"),
    ("@.a && @.b", "logical expression"),
    ("!@.a", "negation"),
    ("(@.a)", "parenthesized query"),
]

# syntactic positions: template with {} for the call
POSITIONS = [
    "$[?{}]",
    "$[?!{}]",
    "$[?{} && @.x]",
    "$[?@.x || {}]",
    "$[?({})]",
    "$[?{} == 1]",
    "$[?1 != {}]",
    "$[?ll({})]",
    "$[?vv({}) == 1]",
    "$[?nn({})]",
]


def _mk_function(params: Tuple[str, ...], ret: str):
    class F(FilterFunction):
        arg_types = [TMAP[p] for p in params]
        return_type = TMAP[ret]

        def __call__(self, *a):  # never evaluated here
            return None

    return F()


def make_env(sigs: Dict[str, Tuple[Tuple[str, ...], str]]) -> JSONPathEnvironment:
    env = hcommon.ModelEnv() if hcommon.symbolic_mode() else JSONPathEnvironment()
    for name, (params, ret) in sigs.items():
        env.function_extensions[name] = _mk_function(params, ret)
    return env


def all_sigs(fsig) -> Dict[str, Tuple[Tuple[str, ...], str]]:
    s = dict(BUILTIN_SIGNATURES)
    s.update(HELPERS)
    s["f"] = fsig
    return s


def differential(q: str, sigs, env, int_min=None, int_max=None) -> Union[bool, str]:
    kw = {}
    if int_min is not None:
        kw = {"int_min": int_min, "int_max": int_max}
    rp = RefParser(q, sigs, **kw)
    try:
        ast = rp.parse()
        verdict = "valid"
    except RefSyntaxError:
        verdict, ast = "syntax", None
    except RefInvalid:
        verdict, ast = "invalid", None
    assume(not rp.disputed)
    try:
        c = env.compile(q)
        accepted = True
    except JSONPathError:
        accepted = False
    if verdict == "valid":
        if not accepted:
            return "well-typed query rejected: %r (f: %r)" % (q, sigs.get("f"))
        if astnf_query(c) != ref_nf(ast):
            return "query %r parsed differently" % (q,)
        return True
    if accepted:
        return "%s query accepted: %r (f: %r)" % ("not well-formed" if verdict == "syntax" else "invalid", q, sigs.get("f"))
    return True


def ch_setup() -> None:
    hcommon.install_text_models()


_ENVS: Dict[int, JSONPathEnvironment] = {}


def h_typing() -> Union[bool, str]:
    """Signature fixed per instance; position and argument kinds are symbolic selectors (fork-enumerated)."""
    si = P["sig"]
    params, ret = SIGNATURES[si]
    sigs = all_sigs((params, ret))
    env = _ENVS.get(si)
    if env is None:
        env = _ENVS[si] = make_env({k: v for k, v in sigs.items() if k not in BUILTIN_SIGNATURES})
    pos = fresh(int, "pos")
    assume(0 <= pos < len(POSITIONS))
    args = []
    full = P.get("full", False)
    vary = fresh(int, "vary") if (len(params) == 2 and not full) else 0
    if len(params) == 2 and not full:
        assume(0 <= vary <= 1)
    for j in range(len(params)):
        if len(params) == 2 and not full and j != vary:
            # the other parameter gets a representative that is well-typed for it
            rep = {VALUE: "1", LOGICAL: "@.a == 1", NODES: "@.*"}[params[j]]
            args.append(rep)
            continue
        ak = fresh(int, "arg%d" % j)
        assume(0 <= ak < len(ARG_KINDS))
        for i, (txt, _d) in enumerate(ARG_KINDS):
            if ak == i:
                args.append(txt)
    # missing / extra argument variants
    arity = fresh(int, "arity")
    assume(-1 <= arity <= 1)
    if arity == -1:
        assume(len(args) > 0)
        args = args[:-1]
    elif arity == 1:
        args = args + ["1"]
    call = "f(" + ", ".join(args) + ")"
    q = None
    for i, tpl in enumerate(POSITIONS):
        if pos == i:
            q = tpl.format(call)
    return differential(q, sigs, env)


SEGMENT_TEXTS = [".a", "['a']", '["b"]', "[0]", "[-1]", "..a", "..[0]", "..['a']", "[*]", ".*", "..*", "[0:1]", "[:]", "['a','b']", "[0,1]", "[?@.b]", "[0,'a']", " .a", " [0]"]
SINGULAR_CONTEXTS = ["$[?{} == 1]", "$[?1 < {}]", "$[?{} != {}]", "$[?length({}) == 1]", "$[?match({}, 'a')]", "$[?count({}) == 1]", "$[?{}]", "$[?!{}]", "$[?value({}) == 1]", "$[?{} == 1 && @.x]"]


def h_singular() -> Union[bool, str]:
    """Only singular queries are comparable / acceptable for a ValueType parameter: the embedded query is built from symbolic
    choices of root and segments (up to 3), the context is a symbolic choice (fork-enumerated)."""
    root = "@" if hcommon.sym_choice("root", 2) == 0 else "$"
    nseg = hcommon.sym_choice("nseg", P.get("maxseg", 2) + 1)
    q = root
    for i in range(nseg):
        q += SEGMENT_TEXTS[hcommon.sym_choice("seg%d" % i, len(SEGMENT_TEXTS))]
    ctx = SINGULAR_CONTEXTS[P["context"]]
    text = ctx.replace("{}", q)
    return differential(text, dict(BUILTIN_SIGNATURES), hcommon.model_env())


def h_names() -> Union[bool, str]:
    """Function names in call position are symbolic characters: unknown names must raise, known ones are typed by their signature."""
    sigs = dict(BUILTIN_SIGNATURES)
    sigs.update({"f": ((VALUE,), LOGICAL), "fo": ((NODES,), LOGICAL), "foo": ((LOGICAL,), LOGICAL), "a_1": ((VALUE,), VALUE)})
    env = _ENVS.get(-1)
    if env is None:
        env = _ENVS[-1] = make_env({k: v for k, v in sigs.items() if k not in BUILTIN_SIGNATURES})
    q = P["prefix"] + holes.fragment() + P["suffix"]
    return differential(q, sigs, env)


def h_literal_range() -> Union[bool, str]:
    """End-to-end: index/slice spellings with symbolic trailing digits around the I-JSON limits, default environment bounds."""
    q = P["prefix"] + holes.fragment() + P["suffix"]
    env = hcommon.model_env()
    return differential(q, dict(BUILTIN_SIGNATURES), env)


def h_custom_range() -> Union[bool, str]:
    """An environment subclass with symbolic bounds lo <= hi: '$[i]' / '$[i:j:k]' compile iff every present integer is within [lo, hi]."""
    lo, hi = fresh(int, "lo"), fresh(int, "hi")
    assume(-(10**6) <= lo <= hi <= 10**6)
    form = P["form"]
    vals = [fresh(int, "v%d" % i) for i in range(3)]
    for v in vals:
        assume(-(10**7) <= v <= 10**7)
    from jsonpath_rfc9535.selectors import IndexSelector, SliceSelector
    from jsonpath_rfc9535.exceptions import JSONPathIndexError

    env = c07.GENV
    env.min_int_index, env.max_int_index = lo, hi
    present = [bool(form & 1), bool(form & 2), bool(form & 4)]
    used = [v if p else None for v, p in zip(vals, present)]
    exp_bad = False
    for v in used:
        if v is not None and (v < lo or v > hi):
            exp_bad = True
    if form == 8:
        exp_bad = vals[0] < lo or vals[0] > hi
    try:
        if form == 8:
            IndexSelector(env=env, token=c07.TOK, index=vals[0])
        else:
            SliceSelector(env=env, token=c07.TOK, start=used[0], stop=used[1], step=used[2])
        raised = False
    except JSONPathIndexError:
        raised = True
    return True if raised == exp_bad else "range guard: form %r values %r bounds [%r, %r] raised=%r" % (form, used, lo, hi, raised)


def b2_guards():
    return c07.b2_guards()


def r_typed(query: str, sig: Dict[str, list]):
    """Concrete replay: compile() on an environment with the given user signatures agrees with the reference typing."""
    sigs = dict(BUILTIN_SIGNATURES)
    user = {k: (tuple(v[0]), v[1]) for k, v in sig.items()}
    sigs.update(user)
    env = make_env(user)
    return differential(query, sigs, env)


def selftest_oracle() -> int:
    return oracle_selftest()


SELFTESTS = [selftest_oracle]

NAME_CONTEXTS = [("$[?", "(@.a)]", 1), ("$[?", "(@.a)]", 2), ("$[?", "(@.a)]", 3), ("$[?f", "(@.a)]", 1), ("$[?f", "(@.a)]", 2), ("$[?fo", "(@.*)]", 1), ("$[?", "o(@.*)]", 1), ("$[?foo(", "(@.a))]", 2),
                 ("$[?a_", "(@.a)==1]", 1), ("$[?", "ength(@.a)==1]", 1), ("$[?coun", "(@.*)==1]", 1), ("$[?valu", "(@.*)==1]", 1), ("$[?matc", "(@.a,'x')]", 1)]
RANGE_CONTEXTS = [("$[900719925474099", "]", 1), ("$[-900719925474099", "]", 1), ("$[90071992547409", "]", 2), ("$[:900719925474099", "]", 1), ("$[-900719925474099", ":]", 1), ("$[::-900719925474099", "]", 1),
                  ("$[1:2:900719925474099", "]", 1), ("$[9007199254740", "]", 3), ("$[?@[900719925474099", "]]", 1), ("$[?@[-900719925474099", "]==1]", 1)]


def obligations(tier: str):
    obls = []
    t = 300 if tier == "quick" else 1800
    for si in range(len(SIGNATURES)):
        obls.append({"id": "typing.sig%02d" % si, "func": "h_typing", "params": {"sig": si, "full": tier == "thorough"}, "timeout": t})
    for i, (pre, suf, k) in enumerate(NAME_CONTEXTS):
        if k == 3 and tier == "quick":
            continue
        obls.append({"id": "names%02d.k%d" % (i, k), "func": "h_names", "params": {"prefix": pre, "suffix": suf, "k": k}, "timeout": t if k < 3 else 1200})
    for i, (pre, suf, k) in enumerate(RANGE_CONTEXTS):
        if k == 3 and tier == "quick":
            continue
        obls.append({"id": "range%02d.k%d" % (i, k), "func": "h_literal_range", "params": {"prefix": pre, "suffix": suf, "k": k}, "timeout": t})
    for ci in range(len(SINGULAR_CONTEXTS)):
        obls.append({"id": "singular.ctx%d" % ci, "func": "h_singular", "params": {"context": ci, "maxseg": 2 if tier == "quick" else 3}, "timeout": t if tier == "quick" else 1200})
    for form in (1, 2, 3, 4, 5, 6, 7, 8):
        obls.append({"id": "custom_range.form%d" % form, "func": "h_custom_range", "params": {"form": form}, "timeout": t})
    obls.append({"id": "smt.b2_guards", "kind": "smt", "func": "b2_guards", "timeout": 120})
    return obls
