"""C08 — nodes carry exact locations and canonical, re-queryable normalized paths (DESIGN §4 C08)."""
from __future__ import annotations

from typing import Union

import jsonpath_rfc9535 as jp
from jsonpath_rfc9535 import JSONPathEnvironment
from jsonpath_rfc9535.exceptions import JSONPathError
from jsonpath_rfc9535.node import JSONPathNode, JSONPathNodeList

from vtools import evalh, hcommon, models
from vtools.inst import P, assume, fresh
from vtools.ref.evalref import ref_eval, ref_normalized_path
from vtools.ref.grammar import ref_parse, ref_verdict

ENV = JSONPathEnvironment()

INFO = {
    "explanation": "(a) locations: for index/slice/name templates (negative indices and reverse slices are solver variables) on symbolic trees every yielded node's location is walked key by key from the "
    "root and must reach the identical object held in node.value (also asserted in every C01/C02 obligation). (b) path(): JSONPathNode.path() for symbolic locations of up to 3 keys - each a name of "
    "up to 2 symbolic characters over all scalar values (quotes, backslash, every control character, DEL, non-BMP, empty) or a symbolic non-negative integer - equals the RFC 9535 section 2.7 normalized "
    "path computed by the reference. (c) re-queryability: for a symbolic member name the normalized path of the node is compiled by the real parser and evaluated on an object holding that member "
    "and near-miss members: exactly that one node comes back; likewise for array positions reached through negative indices. (d) values()/paths()/items() of node lists agree with the nodes.",
    "functions": ["node.JSONPathNode.path/new_child", "node.JSONPathNodeList.values/paths/items", "serialize.canonical_string", "selectors.IndexSelector.resolve/_normalized_index", "selectors.SliceSelector.resolve",
                  "selectors.NameSelector.resolve", "lex.lex_string_factory", "parse.Parser._decode_string_literal/_unescape_string/_decode_escape_sequence/_decode_hex_char/_parse_hex_digits"],
    "bounds": {"quick": {"names": "<= 2 symbolic characters (any scalar value)", "location": "<= 3 keys", "array positions": "arrays <= 3"}, "thorough": {"names": "<= 3 characters", "location": "<= 3 keys"}},
    "models": ["M5 json.dumps(str, ensure_ascii=False) (validated for every scalar value each run)", "M3/M6, guarded bitwise rewrites (C09)", "objects with symbolic member names are equality-scan dicts"],
    "outside": ["names longer than the bound (path rendering and parsing are per character / per escape)"],
    "assumptions": ["member names are strings of Unicode scalar values"],
}


def ch_setup() -> None:
    hcommon.install_text_models()


def _sym_key(name: str, maxlen: int):
    """A location key: a symbolic name (<= maxlen chars) or a symbolic non-negative int."""
    if fresh(bool, name + "_isname"):
        n = hcommon.sym_choice(name + "_len", maxlen + 1)
        return hcommon.sym_fragment(n, name + "_c")
    i = fresh(int, name + "_i")
    assume(0 <= i <= P.get("maxint", 10**6))
    return i


def h_path() -> Union[bool, str]:
    nk = P["keys"]
    loc = tuple(_sym_key("k%d" % j, P.get("maxlen", 2)) for j in range(nk))
    loc = tuple(P.get("before", [])) + loc + tuple(P.get("after", []))
    node = JSONPathNode(value=None, location=loc, root=None)
    got = node.path()
    want = ref_normalized_path(loc)
    if got != want:
        return "path of %r is %r, RFC normalized path is %r" % (loc, got, want)
    return True


def h_requery_name() -> Union[bool, str]:
    """path() of a member node, fed back through the real parser, selects exactly that member."""
    n = hcommon.sym_choice("len", P.get("maxlen", 2) + 1)
    name = hcommon.sym_fragment(n, "c")
    pairs = [(name, 1), (name + "x", 2), ("y" + name, 3)]
    doc = hcommon.sym_object(pairs)
    node = JSONPathNode(value=1, location=(name,), root=doc)
    p = node.path()
    if ref_verdict(p) != "valid":
        return "normalized path %r of member %r is not a valid query" % (p, name)
    try:
        c = hcommon.model_env().compile(p)
    except JSONPathError as e:
        return "normalized path %r of member %r does not compile" % (p, name)
    nodes = c.find(doc)
    if len(nodes) != 1 or nodes[0].location != (name,) or nodes[0].value != 1:
        return "normalized path %r of member %r selects %r" % (p, name, [x.location for x in nodes])
    if nodes[0].path() != p:
        return "path of the re-queried node differs"
    return True


def h_requery_index() -> Union[bool, str]:
    """Nodes reached through negative indices / reverse slices: location is non-negative and path() re-selects the node."""
    n = P["n"]
    arr = models.ModelList([fresh(int, "e%d" % i) for i in range(n)]) if hcommon.symbolic_mode() else [fresh(int, "e%d" % i) for i in range(n)]
    doc = {"a": arr}
    q, rast = evalh.build_query([("child", ["name"]), ("child", [P["selector"]])], ENV)
    nodes = q.find(doc)
    expected = ref_eval(rast, doc)
    r = evalh.check_nodes(nodes, expected, doc)
    if r is not True:
        return r
    nl = JSONPathNodeList(nodes)
    if nl.values() != [x.value for x in nodes] or nl.paths() != [x.path() for x in nodes] or nl.items() != [(x.path(), x.value) for x in nodes]:
        return "values()/paths()/items() disagree with the nodes"
    for x in nodes:
        for key in x.location:
            if not isinstance(key, str) and key < 0:
                return "negative index in location %r" % (x.location,)
        p = x.path()
        if p != ref_normalized_path(x.location):
            return "path %r is not the normalized path of %r" % (p, x.location)
        back = jp.compile(p).find(doc)
        if len(back) != 1 or back[0].location != x.location or back[0].value is not x.value:
            return "path %r does not lead back to the node" % (p,)
    return True


def h_reach() -> bool:
    """Reachability twin: must be refuted (some name needs an escape in its normalized path)."""
    name = hcommon.sym_fragment(1, "c")
    return len(JSONPathNode(value=None, location=(name,), root=None).path()) == 6


def selftest_json() -> int:
    return models.validate_json_escape()


def selftest_ref_paths() -> int:
    """The reference normalized path against the RFC 9535 table 20 examples and the repository's own expectations."""
    cases = [(("a",), "$['a']"), ((1,), "$[1]"), (("\u000b",), "$['\\u000b']"), (("\\u000B",), "$['\\\\u000B']"), (("'", "@"), "$['\\'']['@']"),
             (("a", 2, "b\nc"), "$['a'][2]['b\\nc']"), (("\x08\x0c\n\r\t\x00\x1f\x7f\"",), "$['\\b\\f\\n\\r\\t\\u0000\\u001f\x7f\"']"), (("\U0001F600", ""), "$['\U0001F600']['']")]
    for loc, want in cases:
        assert ref_normalized_path(loc) == want, (loc, ref_normalized_path(loc), want)
        assert ref_verdict(want) == "valid"
    return len(cases)


SELFTESTS = [selftest_json, selftest_ref_paths]


def obligations(tier: str):
    obls = []
    t = 300 if tier == "quick" else 1200
    ml = 2 if tier == "quick" else 3
    obls.append({"id": "path.keys0", "func": "h_path", "params": {"keys": 0}, "timeout": t})
    obls.append({"id": "path.keys1", "func": "h_path", "params": {"keys": 1, "maxlen": ml}, "timeout": t})
    obls.append({"id": "path.keys2", "func": "h_path", "params": {"keys": 2, "maxlen": 1, "maxint": 99}, "timeout": t})
    obls.append({"id": "path.keys3.mid", "func": "h_path", "params": {"keys": 1, "maxlen": 1, "maxint": 99, "before": ["a'b"], "after": [3]}, "timeout": t})
    obls.append({"id": "path.keys3.ends", "func": "h_path", "params": {"keys": 1, "maxlen": 2, "maxint": 99, "before": [0, "\n"], "after": []}, "timeout": t})
    obls.append({"id": "requery.name", "func": "h_requery_name", "params": {"maxlen": ml}, "timeout": t})
    for n in range(0, 4):
        for sel in ("index", "slice"):
            obls.append({"id": "requery.%s.n%d" % (sel, n), "func": "h_requery_index", "params": {"n": n, "selector": sel}, "timeout": t})
    obls.append({"id": "reach", "func": "h_reach", "timeout": 60, "expect": "refuted"})
    return obls


def r_requery(name: str):
    """Concrete replay: the normalized path of member *name* compiles and selects exactly that member."""
    doc = {name: 1, name + "x": 2}
    p = JSONPathNode(value=1, location=(name,), root=doc).path()
    if p != ref_normalized_path((name,)):
        return "path %r is not the RFC normalized path" % (p,)
    try:
        nodes = jp.find(p, doc)
    except JSONPathError as e:
        return "normalized path %r does not compile: %s" % (p, e)
    return True if [(n.location, n.value) for n in nodes] == [((name,), 1)] else "path %r selects %r" % (p, [n.location for n in nodes])
