"""C11 — match() and search(): the Python translation layer and the call/guard contract (DESIGN §4 C11, §5).

The language-preservation core of the property depends on two foreign engines (``regex``: C, ``iregexp_check``: Rust) that
cannot be executed symbolically or encoded within reach.  What is decided here is everything the repository's own Python code
contributes: the pattern rewriting ``map_re`` and the guard/dispatch logic of ``Match.__call__`` / ``Search.__call__`` with the
engines replaced by contract stubs (M10), plus a finite, exhaustive concrete check of the '.' replacement on the real engine.
"""
from __future__ import annotations

from typing import Any, List, Union

import regex

from jsonpath_rfc9535.filter_expressions import NOTHING
from jsonpath_rfc9535.function_extensions import _pattern
from jsonpath_rfc9535.function_extensions import match as match_mod
from jsonpath_rfc9535.function_extensions import search as search_mod
from jsonpath_rfc9535.function_extensions.match import Match
from jsonpath_rfc9535.function_extensions.search import Search

from vtools import hcommon
from vtools.inst import P, assume, fresh

INFO = {
    "explanation": "(i) map_re(p) executed symbolically for every pattern of up to 4 (5 thorough) characters over all scalar values against the reference rewriting: an unescaped '.' outside a character "
    "class becomes the any-character-but-CR/LF group, every other character (escaped characters, class contents, escaped backslashes) is copied verbatim. (ii) Match.__call__ / Search.__call__ executed "
    "with the two foreign engines cut by contract stubs: arguments symbolic over every JSON kind and nothing; non-string pattern or subject => False; validity check false => False; engine raising "
    "regex.error / TypeError => False; no exception ever escapes; match calls fullmatch(map_re(p), s), search calls search(map_re(p), s), both with the same flags. (iii) finite exhaustive concrete "
    "check on the real engine: the '.' replacement matches every single scalar value except LF and CR and nothing of length 2, and '.' inside a class stays literal.",
    "functions": ["function_extensions._pattern.map_re", "function_extensions.match.Match.__call__", "function_extensions.search.Search.__call__"],
    "bounds": {"quick": {"pattern": "<= 4 symbolic characters", "arguments": "every JSON kind, strings <= 2 chars"}, "thorough": {"pattern": "<= 5 symbolic characters"}},
    "models": ["M10: regex.fullmatch / regex.search / iregexp_check.check replaced by recording stubs that return a symbolic outcome or raise regex.error / TypeError (a cut, stated as such)"],
    "outside": ["that the foreign engines implement I-Regexp semantics for the rewritten pattern (the core of C11): not decidable by this family here, see DESIGN section 5", "'^' and '$' (excluded by the property)"],
    "assumptions": ["the engines honour their documented contracts (fullmatch = whole string, search = some substring)"],
}


def ch_setup() -> None:
    hcommon.install_text_models()


def ref_map_re(p: str, dot: str) -> str:
    out: List[str] = []
    i = 0
    in_class = False
    n = len(p)
    while i < n:
        c = p[i]
        if c == "\\":
            out.append(c)
            if i + 1 < n:
                out.append(p[i + 1])
            i += 2
            continue
        if c == "[":
            in_class = True
        elif c == "]":
            in_class = False
        if c == "." and not in_class:
            out.append(dot)
        else:
            out.append(c)
        i += 1
    return "".join(out)


DOT = _pattern.map_re(".")


def h_map_re() -> Union[bool, str]:
    n = P["n"]
    p = hcommon.sym_fragment(n, "p")
    got = _pattern.map_re(p)
    want = ref_map_re(p, DOT)
    return True if got == want else "map_re(%r) = %r, reference rewriting gives %r" % (p, got, want)


class _Stub:
    """Recording stand-in for the ``regex`` module as seen by match.py / search.py."""

    error = regex.error
    VERSION1 = regex.VERSION1
    VERSION0 = regex.VERSION0

    def __init__(self) -> None:
        self.calls: List[Any] = []

    def _outcome(self, kind, pattern, string, flags):
        if not isinstance(string, str) or not isinstance(pattern, str):
            raise TypeError("expected string or buffer")  # documented behaviour of the engine
        self.calls.append((kind, pattern, string, tuple(flags)))
        o = hcommon.sym_choice("engine_outcome", 4)
        if o == 0:
            return None
        if o == 1:
            return object()  # a match object (truthy)
        if o == 2:
            raise regex.error("stub: engine rejects the pattern")
        raise TypeError("stub: engine rejects the argument types")

    def __getattr__(self, name):
        # any other part of the engine's API (match, compile, sub, ...): its meaning depends on the engine, which this
        # obligation cuts away - not judged here (the concrete cases on the real engine still apply)
        from vtools.inst import inconclusive

        inconclusive("regex API %r is not modelled by the contract stub" % (name,))

    def fullmatch(self, pattern, string, *flags, **kw):
        return self._outcome("fullmatch", pattern, string, list(flags) + sorted(kw.items()))

    def search(self, pattern, string, *flags, **kw):
        return self._outcome("search", pattern, string, list(flags) + sorted(kw.items()))


def _arg(name: str):
    k = hcommon.sym_choice(name + "kind", 8)
    if k == 7:
        return NOTHING
    return hcommon.sym_json(name, 1, 1, kind=k, strlen=2, names=["a"])


def h_glue() -> Union[bool, str]:
    subject = _arg("s")
    pattern = _arg("p")
    results = {}
    flags = {}
    for nm, mod, cls, kind in (("match", match_mod, Match, "fullmatch"), ("search", search_mod, Search, "search")):
        stub = _Stub()
        valid = fresh(bool, "check_" + nm)
        checked: List[Any] = []

        def check(pat, _valid=valid, _checked=checked):
            _checked.append(pat)
            return _valid

        saved = (mod.re, mod.check)
        mod.re, mod.check = stub, check
        try:
            try:
                r = cls()(subject, pattern)
            except Exception as e:  # noqa: BLE001
                return "%s(%r, %r) raised %s" % (nm, subject, pattern, type(e).__name__)
        finally:
            mod.re, mod.check = saved
        if r is not True and r is not False:
            return "%s returned a non-boolean %r" % (nm, r)
        if not isinstance(pattern, str):
            if r is not False or stub.calls:
                return "%s with a non-string pattern %r: result %r, engine calls %r" % (nm, pattern, r, len(stub.calls))
            continue
        if not valid:
            if r is not False or stub.calls:
                return "%s with an invalid I-Regexp: result %r, engine called %d times" % (nm, r, len(stub.calls))
            continue
        if not isinstance(subject, str):
            # the engine refuses a non-string subject with TypeError: the result must be False
            if r is not False or stub.calls:
                return "%s on a non-string subject %r returned %r" % (nm, subject, r)
            continue
        if len(stub.calls) != 1:
            return "%s made %d engine calls" % (nm, len(stub.calls))
        k, pat, s, fl = stub.calls[0]
        if k != kind:
            return "%s called the engine's %s" % (nm, k)
        if pat != ref_map_re(pattern, DOT) or s is not subject:
            return "%s passed (%r, %r) to the engine for pattern %r" % (nm, pat, s, pattern)
        flags[nm] = fl
        results[nm] = r
    if "match" in flags and "search" in flags and flags["match"] != flags["search"]:
        return "match and search use different engine flags: %r vs %r (a pattern must mean the same in both)" % (flags["match"], flags["search"])
    return True


def c_dot_semantics():
    """Finite, exhaustive concrete check on the real engine (supplementary; not a symbolic obligation)."""
    bad = []
    n = 0
    pat = regex.compile(DOT)
    for cp in range(0x110000):
        if 0xD800 <= cp <= 0xDFFF:
            continue
        m = pat.fullmatch(chr(cp)) is not None
        if m != (cp not in (10, 13)):
            bad.append(cp)
        n += 1
    for s in ("ab", "\r\n", "a\n", "\U0001F600\U0001F600"):
        if pat.fullmatch(s) is not None:
            bad.append(s)
    m, sr = Match(), Search()
    for p, s, wm, ws in (("[.]", ".", True, True), ("[.]", "a", False, False), ("a.c", "a\nc", False, False), ("a.c", "abc", True, True), ("a.c", "xabcx", False, True),
                         ("[a||b]", "|", True, True), ("[a&&b]", "&", True, True), ("[ab-]", "-", True, True), ("[a~~b]", "~", True, True), ("\\.", ".", True, True), ("\\.", "a", False, False),
                         ("\\\\.", "\\a", True, True), ("\\\\.", "\\\r", False, False), ("a|b", "b", True, True), ("ab", "ab\n", False, True), ("", "\n", False, True), ("a|b", "b\n", False, True), ("ab", "\nab", False, True), ("a.", "ab\n", False, True), ("[ab]+", "ab\r", False, True), ("ab", "AB", False, False), ("a b", "ab", False, False), ("ab$", "ab", False, False) if False else ("x", "x", True, True), ("(ab)*", "abab", True, True), (".", " ", True, True)):
        if m(s, p) is not wm or sr(s, p) is not ws:
            bad.append((p, s, m(s, p), sr(s, p)))
    if bad:
        return {"status": "refuted", "failure": "'.' / class semantics on the real engine: %r" % (bad[:5],), "replay_module": "vtools.props.c11", "replay_func": "r_dot", "replay_args": {}}
    return {"status": "confirmed", "paths": n, "confirmed_paths": n, "queries": [{"claim": "fullmatch(map_re('.'), c) <=> c not in CR,LF for all %d scalar values; 16 concrete match/search cases" % n, "result": "exhaustive concrete enumeration"}]}


def r_dot():
    r = c_dot_semantics()
    return True if r["status"] == "confirmed" else r["failure"]


def h_reach() -> bool:
    """Reachability twin: must be refuted (some pattern contains a dot that is rewritten)."""
    p = hcommon.sym_fragment(2, "p")
    return _pattern.map_re(p) == p


SELFTESTS = []


def obligations(tier: str):
    obls = []
    t = 300 if tier == "quick" else 1200
    for n in range(0, (4 if tier == "quick" else 5) + 1):
        obls.append({"id": "map_re.n%d" % n, "func": "h_map_re", "params": {"n": n}, "timeout": t})
    obls.append({"id": "glue", "func": "h_glue", "timeout": t})
    obls.append({"id": "dot_semantics", "kind": "concrete", "func": "c_dot_semantics", "timeout": 300})
    obls.append({"id": "reach", "func": "h_reach", "timeout": 60, "expect": "refuted"})
    return obls
