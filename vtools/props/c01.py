"""C01 — structural selection (segments, name/index/slice/wildcard) follows RFC 9535 (DESIGN §4 C01)."""
from __future__ import annotations

from typing import Union

from jsonpath_rfc9535 import JSONPathEnvironment

from vtools import evalh, hcommon, holes, models
from vtools.corpus import SEEDS
from vtools.inst import P
from vtools.ref.evalref import ref_eval
from vtools.ref.selftest import oracle_selftest

ENV = JSONPathEnvironment()

INFO = {
    "explanation": "E-obligations: a filter-free query is built through the public constructors from a template (every selector kind, multi-selector segments with duplicates, child and descendant "
    "segments, up to 3 segments) with every index/slice integer an unbounded-in-I-JSON-range solver variable (slice parts present or omitted) and every name a symbolic choice; the JSON value is a "
    "symbolic tree (shape: symbolic choices over arrays/objects/scalars up to the stated depth and width; member names symbolic choices; leaves symbolic ints); the real finditer/resolve code runs on "
    "it and the yielded (location, value) sequence must equal the RFC 9535 reference evaluation - same nodes, same order, duplicates kept, values identical objects, every location leading from the "
    "root to the value. P-obligations (spelling -> same query) are the accept-mode hole instances over the filter-free seeds.",
    "functions": ["query.JSONPathQuery.finditer/find", "segments.JSONPathChildSegment.resolve", "segments.JSONPathRecursiveDescentSegment.resolve/_visit", "selectors.NameSelector/IndexSelector/SliceSelector/WildcardSelector.resolve",
                  "node.JSONPathNode.new_child", "lex.*/parse.* (spelling obligations)"],
    "bounds": {"quick": {"document": "depth <= 2, width <= 2, names from {a,b}, int leaves", "query": "<= 3 segments, <= 3 selectors per segment", "ints": "any in +/-(2^53-1)"},
               "thorough": {"document": "depth <= 3 (descendant templates) width <= 2; depth 2 width 3 (child templates)", "query": "same", "ints": "same"}},
    "models": ["M1/M2 slice.indices and list subscript in Python (validated on a grid each run)"],
    "outside": ["wider/deeper documents", "member names beyond the 2-3 name alphabet (names only matter through equality)", "scalar leaves other than ints (structural selection does not inspect scalars)"],
    "assumptions": ["documents are JSON values (trees, no sharing)"],
}

# (template, needs depth)
C, D = "child", "desc"
TEMPLATES = [
    ([(C, ["name"])], 1), ([(C, ["index"])], 1), ([(C, ["slice"])], 1), ([(C, ["wild"])], 1),
    ([(C, ["index", "index"])], 1), ([(C, ["name", "name"])], 1), ([(C, ["wild", "name"])], 1), ([(C, ["slice", "index"])], 1), ([(C, ["name", "index", "wild"])], 1), ([(C, ["wild", "wild"])], 1),
    ([(C, ["wild"]), (C, ["wild"])], 2), ([(C, ["name"]), (C, ["index"])], 2), ([(C, ["index"]), (C, ["name"])], 2), ([(C, ["wild"]), (C, ["slice"])], 2), ([(C, ["name", "index"]), (C, ["wild"])], 2),
    ([(C, ["wild"]), (C, ["name", "index"])], 2), ([(C, ["slice"]), (C, ["index"])], 2),
    ([(D, ["wild"])], 2), ([(D, ["name"])], 2), ([(D, ["index"])], 2), ([(D, ["slice"])], 2), ([(D, ["wild", "wild"])], 2), ([(D, ["name", "index"])], 2),
    ([(C, ["name"]), (D, ["name"])], 2), ([(D, ["name"]), (D, ["name"])], 2), ([(D, ["wild"]), (C, ["index"])], 2), ([(D, ["name"]), (C, ["wild"])], 2), ([(C, ["wild"]), (D, ["wild"])], 2),
    ([(C, ["wild"]), (C, ["wild"]), (C, ["wild"])], 2), ([(D, ["index"]), (D, ["wild"])], 2),
]


def ch_setup() -> None:
    from vtools import chpatches

    if P.get("mode"):  # spelling obligations run in vtools.holes
        return
    chpatches.install(slices=True, ints=False)
    chpatches.install_int_repr_placeholder()


def h_eval() -> Union[bool, str]:
    template = TEMPLATES[P["template"]][0]
    q, rast = evalh.build_query(template, ENV)
    doc = evalh.sym_document("d", P["depth"], P["width"], rootkind=P.get("rootkind"))
    nodes = q.find(doc)
    expected = ref_eval(rast, doc)
    r = evalh.check_nodes(nodes, expected, doc)
    if r is not True:
        return "%s on %r: %s" % (evalh.template_text(template), doc, r)
    return True


def h_reach() -> bool:
    """Reachability twin: must be refuted (some descendant query selects the same node twice)."""
    q, rast = evalh.build_query([(D, ["wild", "wild"])], ENV)
    doc = evalh.sym_document("d", 2, 2, rootkind=5)
    return len(q.find(doc)) < 4


def selftest_oracle() -> int:
    return oracle_selftest()


def selftest_models() -> int:
    return models.validate_slice_models()


SELFTESTS = [selftest_oracle, selftest_models]

FILTER_FREE_SEEDS = [s for s in SEEDS if "?" not in s]


SLOW = {13, 16, 20}  # multi-segment / descendant templates with a slice: thorough tier only


def obligations(tier: str):
    obls = []
    t = 300 if tier == "quick" else 1200
    for ti, (tpl, need) in enumerate(TEMPLATES):
        if tier == "quick" and ti in SLOW:
            continue
        depth, width = need, (3 if need == 1 and not any("slice" in specs for _k, specs in tpl) else 2)
        if tier == "thorough" and tpl in ([(D, ["wild"])], [(D, ["name"])], [(D, ["wild", "wild"])]):
            depth = 3
        for rk, rkn in ((2, "scalar"), (5, "array"), (6, "object")):
            obls.append({"id": "eval.t%02d.%s" % (ti, rkn), "func": "h_eval", "params": {"template": ti, "depth": depth, "width": width, "rootkind": rk}, "timeout": t})
    obls.append({"id": "eval.reach", "func": "h_reach", "timeout": 120, "expect": "refuted"})
    for j, (pre, suf) in enumerate(holes.hole_instances(FILTER_FREE_SEEDS)):
        obls.append(holes.obligation("spell%04d.k1" % j, pre, suf, 1, "accept", 120))
    return obls
