"""C02 — filter selection follows RFC 9535: existence, logic, scoping, iteration (DESIGN §4 C02)."""
from __future__ import annotations

from typing import Dict, Union

import jsonpath_rfc9535 as jp

from vtools import evalh, hcommon, holes
from vtools.corpus import SEEDS
from vtools.inst import P
from vtools.ref.evalref import RefFunctions, ref_eval
from vtools.ref.grammar import LOGICAL, VALUE, ref_parse
from vtools.ref.selftest import oracle_selftest

INFO = {
    "explanation": "E-obligations: a pool of filter queries (existence tests on bare '@', '@.a', '$'-rooted queries at nesting depth 1 and 2, '!', '&&', '||', every parenthesisation of three operands, "
    "comparisons and function calls as atoms, filters in descendant segments and beside other selectors) is compiled by the real parser and evaluated by the real code on symbolic JSON values: "
    "(truth) the child under test is a symbolic value of every JSON kind - null, booleans, unbounded ints, real-valued floats, strings, arrays and objects of symbolic scalars, so 0, false, \"\", "
    "[] and {} are all in the domain; (iteration) arrays/objects with up to 3 symbolic children; (scoping) objects whose members feed '$'-rooted sub-queries; (scalar roots). The selected "
    "(location, value) sequence must equal the reference evaluation of the RFC 9535 reading of the same text. P-obligations: accept-mode holes over the filter seeds assert the RFC grouping "
    "(precedence/associativity) of the parsed expression for every single-character variation.",
    "functions": ["selectors.FilterSelector.resolve", "filter_expressions.FilterExpression.evaluate", "filter_expressions._is_truthy", "filter_expressions.RelativeFilterQuery/RootFilterQuery.evaluate",
                  "filter_expressions.LogicalExpression/PrefixExpression/ComparisonExpression.evaluate", "filter_expressions._compare", "filter_expressions.FunctionExtension.evaluate/_unpack_node_lists",
                  "function_extensions.length/count/value", "parse.Parser.parse_filter_expression/parse_infix_expression/parse_prefix_expression/parse_grouped_expression (precedences)"],
    "bounds": {"quick": {"child": "any kind; containers of <= 2 symbolic scalars; strings <= 1 char; ints within +/-1000", "iteration": "<= 3 children", "queries": "pool of concrete filter texts"},
               "thorough": {"child": "same with containers nested one level deeper for the existence tests", "iteration": "<= 3 children"}},
    "models": ["floats as reals (exact for comparisons)", "match/search run on the foreign engines with concrete patterns; their subject strings are realized at the C boundary"],
    "outside": ["filters not in the pool (their parse is covered by the hole obligations, their evaluation composes the same node types)", "deeper/wider children"],
    "assumptions": ["documents are JSON values"],
}

import re as _re


def _m(s, p):
    return isinstance(s, str) and isinstance(p, str) and _re.fullmatch(p, s) is not None


def _s(s, p):
    return isinstance(s, str) and isinstance(p, str) and _re.search(p, s) is not None


FNS = RefFunctions({"match": ((VALUE, VALUE), LOGICAL, _m), "search": ((VALUE, VALUE), LOGICAL, _s)})

# family "truth": root is [child] or {"k": child}; "@" is the child
TRUTH = [
    "$[?@]", "$[?!@]", "$[?@.a]", "$[?!@.a]", "$[?@.*]", "$[?@[0]]", "$[?@..a]", "$[?@[?@]]", "$[?@[?!@]]", "$[?@.a && @.b]", "$[?@.a || @.b]", "$[?!@.a && !@.b]", "$[?!(@.a || @.b)]",
    "$[?@.a && @.b || @[0]]", "$[?@.a && (@.b || @[0])]", "$[?(@.a && @.b) || @[0]]", "$[?@.a || @.b && @[0]]", "$[?(@.a || @.b) && @[0]]", "$[?!(@.a && @.b) || !@[0]]",
    "$[?@ == 0]", "$[?@ == false]", "$[?@ == '']", "$[?@ == null]", "$[?@.a == @.b]", "$[?@.a != @.b]", "$[?@ < 1 || @ >= 'a']", "$[?@.a == 1 && @.b]", "$[?!(@.a == 1)]", "$[?!(@ == null) && @]",
    "$[?length(@) == 0]", "$[?length(@) >= 1 && @[0]]", "$[?count(@.*) == 1]", "$[?count(@) == 1]", "$[?value(@) == 0]", "$[?value(@.*) == @[0]]", "$[?length(@.a) == count(@.*)]",
    "$[?$[0] == @]", "$[?$.k]", "$[?$.k == @]", "$[?$[?@.a]]", "$[?@[?$[0].a == @]]", "$[?match(@, 'a?')]", "$[?!search(@.a, 'a') || @.b]", "$[?length(value(@.*)) == 1]",
    "$[?@, ?!@]", "$[0, ?@.a, 0]", "$..[?@.a]", "$..[?@ == 0]", "$[?@.a][?@ == 0]", "$[?@[1:] && @[-1]]",
]
# family "iter": root array/object with up to 3 children from a small variety
ITER = ["$[?@ == 1]", "$[?@ == true]", "$[?@ != 0]", "$[?@]", "$[?@.a]", "$[?@.a == 1]", "$[?@ > 0]", "$[?@.a < @.b]", "$[?!@.a]", "$[?@.a, ?@.b]", "$..[?@.a]", "$[?@.a].a", "$[?count(@.*) == 1]", "$[?@.a || @ == 0]"]
_COMPILED: Dict[str, object] = {}


def ch_setup() -> None:
    from vtools import chpatches

    if P.get("mode"):
        return
    chpatches.install(slices=True, ints=False)
    chpatches.use_real_floats()
    chpatches.install_int_repr_placeholder()
    chpatches.install_regex_stub()


def _compiled(q: str):
    c = _COMPILED.get(q)
    if c is None:
        c = _COMPILED[q] = (jp.compile(q), ref_parse(q, FNS.signatures()))
    return c


def _check(q: str, doc) -> Union[bool, str]:
    c, ast = _compiled(q)
    nodes = c.find(doc)
    expected = ref_eval(ast, doc, None, FNS)
    r = evalh.check_nodes(nodes, expected, doc)
    return True if r is True else "%s on %r: %s" % (q, doc, r)


def h_truth() -> Union[bool, str]:
    q = P["query"]
    child = hcommon.sym_json("c", P.get("depth", 1), 2, kind=P.get("childkind"), strlen=1, intbound=1000, names=["a", "b"])
    wrap = P["wrap"]
    if wrap == "array":
        doc = [child]
    elif wrap == "object":
        doc = {"k": child}
    elif wrap == "array2":
        doc = [child, {"a": child}]
    else:
        doc = child  # the symbolic value itself is the query argument (scalar roots select nothing)
    return _check(q, doc)


def h_iter() -> Union[bool, str]:
    q = P["query"]
    n = hcommon.sym_choice("n", P.get("maxkids", 3) + 1)
    kids = []
    for j in range(n):
        c = hcommon.sym_choice("kid%d" % j, 4)
        if c == 0:
            # a primitive sibling of any kind (a number next to a boolean, a string next to null, ...)
            kids.append(hcommon.sym_scalar("v%d" % j, None, strlen=1, intbound=1000))
        elif c == 1:
            kids.append({"a": hcommon.sym_scalar("v%d" % j, 2, intbound=1000)})
        elif c == 2:
            kids.append({"b": 1, "a": hcommon.sym_scalar("v%d" % j, None, strlen=1, intbound=1000)})
        else:
            kids.append([hcommon.sym_scalar("v%d" % j, 2, intbound=1000)])
    if P["wrap"] == "array":
        doc = kids
    else:
        names = ["x", "a", "b"]
        rot = hcommon.sym_choice("rot", 3)
        doc = {}
        for j, kid in enumerate(kids):
            doc[names[(j + rot) % 3]] = kid
    return _check(q, doc)


MIXED_VALUES = [0, False, 1, True, 1.0, 0.0, -1, "", "a", None, [], {}, [0], {"a": 0}, {"a": False}]
MIXED_QUERIES = ["$[?@ == 1]", "$[?@ == true]", "$[?@ == 0]", "$[?@ == false]", "$[?@ != 0]", "$[?@]", "$[?!@]", "$[?@ >= 0]", "$[?@ == '']", "$[?@ == null]", "$[?@.a == 0]", "$[?@.a]",
                 "$[?@ == $[0]]", "$[?@ == $[1] || @ == $[2]]", "$[?length(@) == 0]", "$[?count(@.*) == 1]", "$[?@[0] == 0]", "$.*[?@ == 0]", "$..[?@ == false]"]


def c_mixed_siblings():
    """Supplementary *finite enumeration* (not symbolic): every array of up to 3 siblings and every 2-member object over 15
    values chosen so that Python-equal values of different JSON kinds sit next to each other (0/false/0.0, 1/true/1.0, ""/null,
    []/{}), against the reference evaluation - the per-child independence of filter evaluation for look-alike siblings."""
    import itertools

    n = 0
    compiled = [(q, jp.compile(q), ref_parse(q, FNS.signatures())) for q in MIXED_QUERIES]
    docs = []
    for k in (1, 2, 3):
        for combo in itertools.product(range(len(MIXED_VALUES)), repeat=k):
            docs.append([MIXED_VALUES[i] for i in combo])
    for a, b in itertools.product(range(len(MIXED_VALUES)), repeat=2):
        docs.append({"x": MIXED_VALUES[a], "y": MIXED_VALUES[b]})
        docs.append([{"a": MIXED_VALUES[a]}, {"a": MIXED_VALUES[b]}])
    for doc in docs:
        for q, c, ast in compiled:
            n += 1
            r = evalh.check_nodes(c.find(doc), ref_eval(ast, doc, None, FNS), doc)
            if r is not True:
                return {"status": "refuted", "failure": "%s on %r: %s" % (q, doc, r), "replay_module": "vtools.props.c02", "replay_func": "r_filter", "replay_args": {"query": q, "doc": doc}, "paths": n}
    return {"status": "confirmed", "paths": n, "confirmed_paths": n, "queries": [{"claim": "%d (query, document) pairs over look-alike siblings equal the reference evaluation" % n, "result": "finite enumeration"}]}


def h_reach() -> bool:
    """Reachability twin: must be refuted (a falsy existing member is selected by an existence test)."""
    child = hcommon.sym_json("c", 1, 1, kind=6, strlen=1, names=["a", "b"])
    nodes = _compiled("$[?@.a]")[0].find([child])
    return not (len(nodes) == 1 and nodes[0].value.get("a") == 0)


def selftest_oracle() -> int:
    return oracle_selftest()


def selftest_pool() -> int:
    for q in TRUTH + ITER:
        _compiled(q)
    return len(TRUTH) + len(ITER)


SELFTESTS = [selftest_oracle, selftest_pool]
FILTER_SEEDS = [s for s in SEEDS if "?" in s]
LOGIC_SEEDS = [s for s in FILTER_SEEDS if "&&" in s or "||" in s or "!" in s or "(" in s]


def obligations(tier: str):
    obls = []
    t = 300 if tier == "quick" else 1200
    for qi, q in enumerate(TRUTH):
        for ck in range(7):
            wraps = ["array"] if tier == "quick" else ["array", "object"]
            if "$.k" in q:
                wraps = ["object"]
            for w in wraps:
                obls.append({"id": "truth%02d.%s.%s" % (qi, hcommon.KIND_NAMES[ck], w), "func": "h_truth", "params": {"query": q, "childkind": ck, "wrap": w, "depth": 2 if (tier == "thorough" and ck >= 5 and qi % 5 == 0 and w == "array") else 1}, "timeout": t})
        obls.append({"id": "truth%02d.root" % qi, "func": "h_truth", "params": {"query": q, "wrap": "root", "depth": 1}, "timeout": t})
        if tier == "thorough" or qi % 5 == 0:
            obls.append({"id": "truth%02d.array2" % qi, "func": "h_truth", "params": {"query": q, "wrap": "array2", "depth": 1}, "timeout": t})
    for qi, q in enumerate(ITER):
        for w in ("array", "object"):
            obls.append({"id": "iter%02d.%s" % (qi, w), "func": "h_iter", "params": {"query": q, "wrap": w, "maxkids": 2 if tier == "quick" else 3}, "timeout": t})
    obls.append({"id": "mixed_siblings", "kind": "concrete", "func": "c_mixed_siblings", "timeout": 600})
    obls.append({"id": "reach", "func": "h_reach", "timeout": 120, "expect": "refuted"})
    for j, (pre, suf) in enumerate(holes.hole_instances(LOGIC_SEEDS, replace=(1,)) if tier == "quick" else holes.hole_instances(FILTER_SEEDS)):
        obls.append(holes.obligation("group%04d.k1" % j, pre, suf, 1, "accept", 120))
    return obls


def r_filter(query, doc):
    """Concrete replay of one (query, document) pair against the reference."""
    c = jp.compile(query)
    ast = ref_parse(query, FNS.signatures())
    r = evalh.check_nodes(c.find(doc), ref_eval(ast, doc, None, FNS), doc)
    return True if r is True else "%s on %r: %s" % (query, doc, r)
