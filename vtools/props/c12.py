"""C12 — str(query) is a faithful canonical form: it reparses to the same query (DESIGN §4 C12)."""
from __future__ import annotations

from typing import Union

import jsonpath_rfc9535 as jp

from vtools import holes, models
from vtools.corpus import HOT, SEEDS
from vtools.props.c03 import TERMINALS
from vtools.ref.selftest import oracle_selftest

INFO = {
    "explanation": "Symbolic execution of compile -> str -> compile -> str on prefix + k symbolic characters + suffix (only paths on which the RFC reference finds the query valid): str(compiled) must itself be "
    "derivable and valid under the reference recogniser, its RFC reading and its recompiled normal form must equal those of the original query (same names, integers, literal values, selectors and the same "
    "grouping of '!', '&&', '||' and comparisons - so the same nodes are selected on every value, because evaluation reads only those fields), and serialising again must give the identical text. "
    "Holes cover every position of the seed corpus (which contains every nesting of !, &&, ||, comparisons, parentheses, calls and embedded filters up to depth 3), the terminal classes of names and literals "
    "over all characters, and numeric literal spellings.",
    "functions": ["query.JSONPathQuery.__str__", "segments.*.__str__", "selectors.*.__str__", "filter_expressions.FilterExpression._canonical_string", "filter_expressions.*.__str__", "serialize.canonical_string", "lex.*", "parse.Parser.*"],
    "bounds": {"quick": {"hole": "k=1 at every seed position; terminal classes with <= 2 symbolic characters (names, literals, numbers); six exponent-notation float contexts (mantissa sign x exponent sign) with <= 2 symbolic exponent digits"}, "thorough": {"hole": "k=2 at every seed position; terminal classes up to 4 characters"}},
    "models": ["M5 json.dumps(str, ensure_ascii=False) as per-character escaping (validated for every scalar value each run)", "as C04"],
    "outside": ["numeric literals outside the exactly representable range (1e400 prints as inf)", "queries further than k characters from a seed"],
    "assumptions": ["node selection depends only on the fields compared by the normal form (slice step omitted = 1 is C07's obligation, numeric kind-insensitivity is C06's)"],
}

ROUNDTRIP_SEEDS = SEEDS + [
    "$[?!(@.a == 1)]", "$[?!(!@.a)]", "$[?!(@.a && @.b)]", "$[?(@.a || @.b) && (@.c || !@.d)]", "$[?@.a || @.b && @.c || @.d]", "$[?!(@.a || @.b) || !(@.c && @.d)]",
    "$[?((@.a))]", "$[?match(@.a, 'a') && !(1 == 2)]", "$[?@[?!(@.x < 2)]]", "$[?length(@.a) == length(@.b) && count(@.*) != 0]", "$[?@.a == 'it''s']".replace("''", "\\'"),
    "$[?@.a == 1.5e-7 || @.b == -0.0 || @.c == 1E2]", "$[1:, :2, ::-1, -1:-3:-1]", "$['\\u0000\\u001f\\u007f']", "$[?@['a'][0]['b'] == $['c'][-1]]",
    # floats whose repr() uses exponent notation, both signs of mantissa and exponent, whole-number and fractional mantissas
    # (added after seeded change C12-r3: the sign of the mantissa decided whether '.0' was kept before the exponent)
    "$[?@.a == 1.0e20 || @.b == 2.0E+16 || @.c == 3.0e-7 || @.d == 1.25e22]",
]

# numeric terminal classes of the serialiser: mantissa sign x exponent sign x two symbolic exponent digits
FLOAT_TERMINALS = [
    ("$[?@.a==1.0e", "]", 2), ("$[?@.a==-1.0e", "]", 2), ("$[?@.a==-2.0E+", "]", 2), ("$[?@.a==-2.0e-", "]", 2), ("$[?@.a==-1.5e", "]", 2), ("$[?@.a==-", ".0e20]", 1),
]


def ch_setup() -> None:
    holes.ch_setup()


def selftest_oracle() -> int:
    return oracle_selftest()


def selftest_json() -> int:
    return models.validate_json_escape()


def selftest_seeds() -> int:
    """Every round-trip seed is valid for the reference and round-trips concretely (sanity of the corpus)."""
    from vtools.ref.grammar import ref_verdict

    for q in ROUNDTRIP_SEEDS:
        assert ref_verdict(q) == "valid", q
    return len(ROUNDTRIP_SEEDS)


SELFTESTS = [selftest_oracle, selftest_json, selftest_seeds]


SLOW_CONTEXTS = set()


def c_sweep(**kw):
    return holes.c_sweep(**kw)


def selftest_derivations() -> int:
    """Second oracle self-test: everything the derivation generator emits is valid for the reference recogniser."""
    from vtools import derive
    from vtools.ref.grammar import ref_verdict

    qs = derive.corpus(2)
    for q in qs:
        assert ref_verdict(q) == "valid", q
    assert len(qs) > 300
    return len(qs)


def obligations(tier: str):
    obls = []
    for ch in range(4):
        obls.append({"id": "derive.roundtrip.chunk%d" % ch, "kind": "concrete", "func": "c_sweep", "params": {"mode": "roundtrip", "depth": 2 if tier == "quick" else 3, "chunk": ch, "nchunks": 4}, "timeout": 600})
    insts = holes.hole_instances(ROUNDTRIP_SEEDS)
    for j, (pre, suf) in enumerate(insts):
        obls.append(holes.obligation("seed%04d.k1" % j, pre, suf, 1, "roundtrip", 120))
        if tier == "thorough" and j % 4 == 0:
            obls.append(holes.obligation("seed%04d.k2" % j, pre, suf, 2, "roundtrip", 600))
    for i, (pre, suf, k, tr) in enumerate(TERMINALS):
        if tier == "quick":
            if tr != "q":
                continue
            if (pre, suf) in SLOW_CONTEXTS:
                k = 1
        obls.append(holes.obligation("term%02d.k%d" % (i, k), pre, suf, k, "roundtrip", 300 if tier == "quick" else 1500))
    for i, (pre, suf, k) in enumerate(FLOAT_TERMINALS):
        obls.append(holes.obligation("float%02d.k%d" % (i, k), pre, suf, k, "roundtrip", 300))
    return obls
