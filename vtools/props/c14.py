"""C14 — evaluation is pure and repeatable; queries and environments do not interfere (DESIGN §4 C14)."""
from __future__ import annotations

import copy
from typing import Any, Dict, List, Tuple, Union

import jsonpath_rfc9535 as jp
from jsonpath_rfc9535 import JSONPathEnvironment
from jsonpath_rfc9535.exceptions import JSONPathError
from jsonpath_rfc9535.function_extensions import ExpressionType, FilterFunction

from vtools import evalh, hcommon
from vtools.inst import P, fresh
from vtools.props.c02 import FNS, TRUTH
from vtools.ref.evalref import RefFunctions, ref_eval
from vtools.ref.grammar import LOGICAL, VALUE, ref_parse

INFO = {
    "explanation": "(frame) every pool query (filters, functions, descendants) applied to a symbolic document: a deep snapshot taken before equals the document after, and node values are the document's "
    "own objects. (histories) operation sequences of length <= 3 (4 thorough) chosen by symbolic selectors the executor forks on - compile a pool query on the shared environment A / on B / on a fresh "
    "one / through the module functions, apply a previously compiled query, find via an environment, register a function (two different implementations under the same name) on A or B, create a "
    "subclass with other limits or the nondeterministic flag, update the document in place - over documents with symbolic leaves. After every step each observable application must equal the result "
    "the reference evaluator gives for (that query text, that environment's own registry, the current document content): nothing depends on what was compiled, applied or registered elsewhere before.",
    "functions": ["environment.JSONPathEnvironment.__init__/compile/find/setup_function_extensions", "__init__.DEFAULT_ENV", "query.JSONPathQuery.find", "selectors.FilterSelector.resolve",
                  "filter_expressions.RootFilterQuery/RelativeFilterQuery/FunctionExtension.evaluate", "parse.Parser.__init__"],
    "bounds": {"quick": {"history": "<= 3 operations from 9 kinds, 4 pool queries, 2 environments + module level", "documents": "2 shapes with symbolic int leaves"}, "thorough": {"history": "<= 4 operations"}},
    "models": ["regex engine modelled by Python's re for the dot-free pool pattern"],
    "outside": ["histories longer than the bound", "the regex module's own process-wide pattern cache (foreign; exercised concretely in replays only)"],
    "assumptions": [],
}

POOL_ALL = ["$.items[?@.v == $.want]", "$.items[?f(@.v)]", "$.items[?@.tags[?@ == $.want]]", "$..v"]
POOL = POOL_ALL


def _mk(limit_kind: int):
    class F(FilterFunction):
        arg_types = [ExpressionType.VALUE]
        return_type = ExpressionType.LOGICAL

        def __call__(self, x):
            if isinstance(x, bool) or not isinstance(x, int):
                return False
            return x < 10 if limit_kind == 0 else x >= 10

    return F()


def _ref_f(limit_kind: int):
    def f(x):
        if isinstance(x, bool) or not isinstance(x, int):
            return False
        return x < 10 if limit_kind == 0 else x >= 10

    return f


def ch_setup() -> None:
    from vtools import chpatches

    chpatches.install(slices=True, ints=False)
    chpatches.use_real_floats()
    chpatches.install_int_repr_placeholder()
    chpatches.install_regex_stub()


def _doc():
    # one symbolic leaf is enough for the history dimension: every other value is concrete, around the f() threshold
    return {"want": fresh(int, "want"), "items": [{"v": 3, "tags": [12, 1]}, {"v": 12, "tags": []}, {"v": fresh(int, "v2"), "tags": [3]}]}


def _expect(text: str, registry: Dict[str, int], doc):
    """Reference verdict for (text, registry, doc): ("ok", nodes) or ("err",)."""
    extra = {}
    if "f" in registry:
        extra["f"] = ((VALUE,), LOGICAL, _ref_f(registry["f"]))
    fns = RefFunctions(extra)
    try:
        ast = ref_parse(text, fns.signatures())
    except Exception:  # noqa: BLE001
        return ("err", None)
    return ("ok", ref_eval(ast, doc, None, fns))


def _observe(fn, doc):
    try:
        return ("ok", fn())
    except JSONPathError:
        return ("err", None)


def _agree(obs, exp, doc, what: str) -> Union[bool, str]:
    if obs[0] != exp[0]:
        return "%s: library %s, reference %s" % (what, obs[0], exp[0])
    if obs[0] == "err":
        return True
    r = evalh.check_nodes(obs[1], exp[1], doc)
    return True if r is True else "%s on %r: %s" % (what, doc, r)


def h_history() -> Union[bool, str]:
    """History = pre-state (A and B carry different implementations of f; four queries already compiled on A) followed by
    P["steps"] operations.  Each operation is a symbolic choice unless fixed by P["ops"] (list of op kinds or None per step)."""
    steps = P["steps"]
    POOL = POOL_ALL[: P.get("pool", 2)]
    envA, envB = JSONPathEnvironment(), JSONPathEnvironment()
    envA.function_extensions["f"] = _mk(0)
    envB.function_extensions["f"] = _mk(1)
    regs: Dict[str, Dict[str, int]] = {"A": {"f": 0}, "B": {"f": 1}, "M": {}}
    envs: Dict[str, Any] = {"A": envA, "B": envB}
    compiled: List[Tuple[Any, str, str]] = [(envA.compile(t), t, "A") for t in POOL]
    doc = _doc()
    log: List[str] = ["pre-state: f(impl 0) on A, f(impl 1) on B, pool compiled on A"]
    fixed = P.get("ops") or []
    for si in range(steps):
        op = fixed[si] if si < len(fixed) and fixed[si] is not None else hcommon.sym_choice("op%d" % si, 6)
        if op == 0:  # compile on A / B and keep the query
            key = "A" if hcommon.sym_choice("e%d" % si, 2) == 0 else "B"
            text = POOL[hcommon.sym_choice("q%d" % si, len(POOL))]
            log.append("compile %r on %s" % (text, key))
            exp = _expect(text, regs[key], doc)
            try:
                c = envs[key].compile(text)
            except JSONPathError:
                if exp[0] != "err":
                    return "%s: compile failed, reference says valid" % log
                continue
            if exp[0] == "err":
                return "%s: compiled, reference says invalid for this environment's registry" % log
            compiled.append((c, text, key))
            r = _agree(_observe(lambda: c.find(doc), doc), exp, doc, str(log))
            if r is not True:
                return r
        elif op == 1:  # apply a previously compiled query
            j = hcommon.sym_choice("which%d" % si, len(compiled))
            c, text, key = compiled[j]
            log.append("apply #%d (%r compiled on %s)" % (j, text, key))
            r = _agree(_observe(lambda: c.find(doc), doc), _expect(text, regs[key], doc), doc, str(log))
            if r is not True:
                return r
        elif op == 2:  # env.find on A or B
            key = "A" if hcommon.sym_choice("e%d" % si, 2) == 0 else "B"
            text = POOL[hcommon.sym_choice("q%d" % si, len(POOL))]
            log.append("find %r via %s" % (text, key))
            r = _agree(_observe(lambda: envs[key].find(text, doc), doc), _expect(text, regs[key], doc), doc, str(log))
            if r is not True:
                return r
        elif op == 3:  # module-level find
            text = POOL[hcommon.sym_choice("q%d" % si, len(POOL))]
            log.append("jp.find %r" % (text,))
            r = _agree(_observe(lambda: jp.find(text, doc), doc), _expect(text, regs["M"], doc), doc, str(log))
            if r is not True:
                return r
        elif op == 4:  # (re-)register f on A or B, implementation 0 or 1
            key = "A" if hcommon.sym_choice("e%d" % si, 2) == 0 else "B"
            impl = hcommon.sym_choice("impl%d" % si, 2)
            log.append("register f(impl %d) on %s" % (impl, key))
            envs[key].function_extensions["f"] = _mk(impl)
            regs[key]["f"] = impl
        else:  # update the document in place
            log.append("update document in place")
            doc["want"] = fresh(int, "want_%d" % si)
            doc["items"][0]["v"] = fresh(int, "nv_%d" % si)
    # epilogue, after every history: a fresh environment, a subclass and the module level are untouched
    text = POOL[1]

    class Sub(JSONPathEnvironment):
        max_recursion_depth = 50
        max_int_index = 10
        min_int_index = -10

    for nm, fn in (("fresh environment", lambda: JSONPathEnvironment().find(text, doc)), ("subclass", lambda: Sub().find(text, doc)), ("module level", lambda: jp.find(text, doc))):
        r = _agree(_observe(fn, doc), _expect(text, {}, doc), doc, "%s then %s find %r" % (log, nm, text))
        if r is not True:
            return r
    if "f" in jp.DEFAULT_ENV.function_extensions or "f" in JSONPathEnvironment().function_extensions:
        return "%s: a function registered on one environment leaked into the default / a fresh environment" % log
    return True


REUSE_QUERIES = ["$..v", "$..[?@.v]", "$.items..v", "$..*"]


def _nesting(v) -> int:
    if isinstance(v, dict):
        return 1 + max([_nesting(x) for x in v.values()] + [0])
    if isinstance(v, list):
        return 1 + max([_nesting(x) for x in v] + [0])
    return 0


def h_reuse() -> Union[bool, str]:
    """A compiled query gives the reference result after ANY earlier use of the same object: complete runs, find_one,
    partly consumed and abandoned iterators, applications that raised JSONPathRecursionError (limit is a solver variable)."""
    from jsonpath_rfc9535.exceptions import JSONPathRecursionError

    text = REUSE_QUERIES[P["query"]]
    L = fresh(int, "limit")
    from vtools.inst import assume

    assume(2 <= L <= 7)

    class Env(JSONPathEnvironment):
        pass

    env = Env()
    env.max_recursion_depth = L
    c = env.compile(text)
    ast = ref_parse(text)
    shallow = {"v": fresh(int, "s0"), "items": [{"v": 1}]}
    deep = {"v": 0, "items": [[[[[[{"v": fresh(int, "d0")}]]]]]]}  # nesting 8 > every limit in range
    mid = {"items": [{"v": fresh(int, "m0"), "w": [{"v": 2}]}], "v": 3}  # nesting 5
    log = []
    for si in range(P["steps"]):
        op = hcommon.sym_choice("op%d" % si, 5)
        doc = (shallow, mid, deep)[hcommon.sym_choice("doc%d" % si, 3)]
        nest = _nesting(doc["items"] if text.startswith("$.items..") else doc)  # counted from where the descent starts
        log.append((op, nest))
        try:
            if op == 0:
                got = c.find(doc)
                if nest > L:
                    return "%r limit %r: nesting %d completed" % (log, L, nest)
                r = evalh.check_nodes(got, ref_eval(ast, doc), doc)
                if r is not True:
                    return "%r limit %r: %s" % (log, L, r)
            elif op == 1:
                one = c.find_one(doc)
                if nest <= L:
                    exp = ref_eval(ast, doc)
                    if (one is None) != (len(exp) == 0) or (one is not None and one.location != exp[0][0]):
                        return "%r limit %r: find_one differs from the head of the reference result" % (log, L)
            elif op == 2:
                it = iter(c.finditer(doc))
                next(it, None)  # one step, then abandoned
            elif op == 3:
                it = iter(c.finditer(doc))
                next(it, None)
                next(it, None)
                del it
            else:
                list(c.finditer(doc))
        except JSONPathRecursionError:
            # too-deep data (or data whose deep part was reached) may raise; an abandoned iterator need not have reached it
            if nest <= L:
                return "%r limit %r: JSONPathRecursionError on data nested %d" % (log, L, nest)
    # finally: the object must still behave like a freshly compiled query
    for doc in (shallow, mid):
        nest = _nesting(doc["items"] if text.startswith("$.items..") else doc)
        try:
            got = c.find(doc)
        except JSONPathRecursionError:
            if nest <= L:
                return "%r limit %r: after this history the query raises JSONPathRecursionError on data nested %d" % (log, L, nest)
            continue
        if nest > L:
            return "%r limit %r: nesting %d completed" % (log, L, nest)
        r = evalh.check_nodes(got, ref_eval(ast, doc), doc)
        if r is not True:
            return "%r limit %r: after this history: %s" % (log, L, r)
    return True


_COMPILED: Dict[str, Any] = {}


def h_frame() -> Union[bool, str]:
    q = P["query"]
    c = _COMPILED.get(q)
    if c is None:
        c = _COMPILED[q] = (jp.compile(q), ref_parse(q, FNS.signatures()))
    doc = [hcommon.sym_json("c", 1, 2, kind=P.get("childkind"), strlen=1, intbound=1000, names=["a", "b"])]
    snap = copy.deepcopy(doc) if not hcommon.symbolic_mode() else _snapshot(doc)
    n1 = c[0].find(doc)
    n2 = c[0].find(doc)
    if not _equal_snapshot(doc, snap):
        return "%s modified its argument: %r -> %r" % (q, snap, doc)
    r = evalh.check_nodes(n1, ref_eval(c[1], doc, None, FNS), doc)
    if r is not True:
        return r
    r = evalh.check_nodes(n2, ref_eval(c[1], doc, None, FNS), doc)
    return True if r is True else "second application differs: %s" % r


def _snapshot(v):
    if isinstance(v, list):
        return ("L", [_snapshot(x) for x in v])
    if isinstance(v, dict):
        return ("D", [(k, _snapshot(x)) for k, x in v.items()])
    return ("S", v)


def _equal_snapshot(v, snap) -> bool:
    if isinstance(snap, tuple) and len(snap) == 2 and snap[0] in ("L", "D", "S"):
        kind, body = snap
        if kind == "L":
            return isinstance(v, list) and len(v) == len(body) and all(_equal_snapshot(x, y) for x, y in zip(v, body))
        if kind == "D":
            return isinstance(v, dict) and list(v.keys()) == [k for k, _ in body] and all(_equal_snapshot(v[k], y) for k, y in body)
        return evalh.same_value(v, body)
    return v == snap


def h_reach() -> bool:
    """Reachability twin: must be refuted (registering f does change what the same text means on that environment)."""
    env = JSONPathEnvironment()
    doc = _doc()
    try:
        env.find(POOL[1], doc)
        return True
    except JSONPathError:
        pass
    env.function_extensions["f"] = _mk(0)
    return len(env.find(POOL[1], doc)) == 0


SELFTESTS = []


def obligations(tier: str):
    obls = []
    t = 600 if tier == "quick" else 1200
    obls.append({"id": "history.len1", "func": "h_history", "params": {"steps": 1}, "timeout": t})
    for op in range(6):
        obls.append({"id": "history.len2.op%d" % op, "func": "h_history", "params": {"steps": 2, "ops": [op], "pool": 2 if tier == "quick" else 4}, "timeout": t})
    # interference pattern: observe, any operation, observe again
    for o1 in (1, 2):
        for x in range(6):
            for o2 in (1, 2):
                obls.append({"id": "history.len3.o%d.x%d.o%d" % (o1, x, o2), "func": "h_history", "params": {"steps": 3, "ops": [o1, x, o2], "pool": 2 if tier == "quick" else 4}, "timeout": t if tier == "quick" else 1200})
    if tier == "thorough":
        for a_ in range(6):
            for b_ in range(6):
                if a_ in (1, 2) and False:
                    continue
                obls.append({"id": "history.len3.all.op%d.op%d" % (a_, b_), "func": "h_history", "params": {"steps": 3, "ops": [a_, b_], "pool": 3}, "timeout": 1200})
    for qi in range(len(REUSE_QUERIES)):
        for steps in ((1, 2) if tier == "quick" else (1, 2, 3)):
            obls.append({"id": "reuse.q%d.len%d" % (qi, steps), "func": "h_reuse", "params": {"query": qi, "steps": steps}, "timeout": t})
    for qi, q in enumerate(TRUTH):
        if tier == "quick" and qi % 3 != 0:
            continue
        for ck in range(7):
            obls.append({"id": "frame%02d.%s" % (qi, hcommon.KIND_NAMES[ck]), "func": "h_frame", "params": {"query": q, "childkind": ck}, "timeout": 300})
    obls.append({"id": "reach", "func": "h_reach", "timeout": 60, "expect": "refuted"})
    return obls
