"""Drive CrossHair's symbolic executor through its Python API (DESIGN §3.1).

One call of :func:`explore` symbolically executes one harness function with
symbolic arguments (types taken from its annotations) until the path tree is
exhausted, a failing path is found, or the time budget ends.

Harness protocol
----------------
* A harness is an ordinary Python function with annotated parameters.
* It returns ``True`` when the property held on the path.  Anything else
  (``False``, a string describing the failure) or any escaping ``Exception``
  is a failure.
* ``assume(cond)`` (below) prunes the path when a precondition fails.
* Because a harness is ordinary Python, *replay* is simply calling it again
  with the concrete counterexample in a plain interpreter, with no tracing and
  no models.
"""
from __future__ import annotations

import inspect
import sys
import time
from dataclasses import dataclass, field
from time import process_time
from typing import Any, Callable, Dict, List, Optional

import crosshair.core_and_libs  # noqa: F401  (registers library models and opcode patches)
from crosshair.condition_parser import condition_parser
from crosshair.copyext import CopyMode, deepcopyext
from crosshair.core import (
    ExceptionFilter,
    Patched,
    deep_realize,
    gen_args,
    realize,
)
from crosshair.options import AnalysisKind
from crosshair.statespace import (
    CallAnalysis,
    RootNode,
    StateSpace,
    StateSpaceContext,
    VerificationStatus,
)
from crosshair.tracers import COMPOSITE_TRACER, NoTracing, ResumedTracing
from crosshair.util import (
    CrosshairUnsupported,
    IgnoreAttempt,
    NotDeterministic,
    UnexploredPath,
)


from vtools import inst as _inst  # noqa: E402


def assume(cond: Any) -> None:
    """Precondition: abandon the current path (it is not counted) unless cond."""
    if not cond:
        raise IgnoreAttempt("precondition")


@dataclass
class Exploration:
    status: str = "unknown"  # confirmed | refuted | unknown
    exhausted: bool = False
    paths: int = 0
    confirmed_paths: int = 0
    ignored_paths: int = 0
    unknown_paths: int = 0
    unknown_reasons: Dict[str, int] = field(default_factory=dict)
    counterexample: Optional[Dict[str, Any]] = None
    failure: Optional[str] = None
    cpu_s: float = 0.0
    wall_s: float = 0.0
    solver_checks: int = 0
    solver_s: float = 0.0
    notes: List[str] = field(default_factory=list)
    spurious: List[Dict[str, Any]] = field(default_factory=list)


class _SolverStats:
    """Counts z3 ``check`` calls made by CrossHair's state space (evidence only)."""

    def __init__(self) -> None:
        self.n = 0
        self.t = 0.0

    def install(self) -> None:
        import z3

        stats = self
        if getattr(z3.Solver.check, "_vt_wrapped", False):
            return
        orig = z3.Solver.check

        def check(self, *a):  # type: ignore[no-untyped-def]
            t0 = time.perf_counter()
            try:
                return orig(self, *a)
            finally:
                stats.n += 1
                stats.t += time.perf_counter() - t0

        check._vt_wrapped = True  # type: ignore[attr-defined]
        z3.Solver.check = check  # type: ignore[assignment]


SOLVER_STATS = _SolverStats()


def explore(
    harness: Callable[..., Any],
    timeout: float,
    per_path_timeout: float = 30.0,
    max_paths: int = 10**9,
    on_confirmed: Optional[Callable[[Dict[str, Any], Any], None]] = None,
    sample_when: Optional[Callable[[int], bool]] = None,
    confirm_refutation: Optional[Callable[[Dict[str, Any]], bool]] = None,
    max_spurious: int = 6,
) -> Exploration:
    """Symbolically execute *harness* over all paths (see module docstring)."""
    SOLVER_STATS.install()
    n0, t0s = SOLVER_STATS.n, SOLVER_STATS.t
    sig = inspect.signature(harness)
    # resolve string annotations
    try:
        import typing

        hints = typing.get_type_hints(harness)
        sig = sig.replace(
            parameters=[
                p.replace(annotation=hints.get(p.name, p.annotation))
                for p in sig.parameters.values()
            ]
        )
    except Exception:  # noqa: BLE001
        pass
    out = Exploration()
    search_root = RootNode()
    wall0 = time.time()
    cpu0 = process_time()
    deadline = cpu0 + timeout
    exhausted = False
    while out.paths < max_paths:
        itr_start = process_time()
        if itr_start > deadline:
            out.notes.append("time budget exhausted")
            break
        out.paths += 1
        space = StateSpace(
            execution_deadline=itr_start + per_path_timeout,
            model_check_timeout=per_path_timeout / 2,
            search_root=search_root,
        )
        status: Optional[VerificationStatus]
        failure: Optional[str] = None
        cex: Optional[Dict[str, Any]] = None
        with condition_parser([AnalysisKind.PEP316]), Patched(), COMPOSITE_TRACER, NoTracing(), StateSpaceContext(space):
            try:
                _inst.FRESH.clear()
                pre_args = gen_args(sig)
                space.checkpoint()
                args = deepcopyext(pre_args, CopyMode.BEST_EFFORT, {})
                ret: object = None
                with ExceptionFilter() as efilter, ResumedTracing():
                    ret = harness(*args.args, **args.kwargs)
                    # decide the verdict *inside* tracing so a symbolic bool forks
                    ok = ret is True or (ret is not False and isinstance(ret, bool) and bool(ret))
                    if not ok and not isinstance(ret, (bool, str)):
                        ok = bool(ret) and not isinstance(realize(ret), str)
                if efilter.ignore:
                    status = None
                    out.ignored_paths += 1
                elif efilter.user_exc is not None and isinstance(efilter.user_exc[0], RecursionError) and "site-packages/crosshair/" in "".join(efilter.user_exc[1].format()[-6:]):
                    # the executor's own recursion (deep symbolic string/sequence structures), not the code under analysis
                    status = VerificationStatus.UNKNOWN
                    out.unknown_paths += 1
                    out.unknown_reasons["ExecutorRecursion"] = out.unknown_reasons.get("ExecutorRecursion", 0) + 1
                elif efilter.user_exc is not None:
                    exc, tb = efilter.user_exc
                    with ResumedTracing():
                        space.detach_path(exc)
                    cex = deep_realize(dict(pre_args.arguments))
                    cex.update(deep_realize(dict(_inst.FRESH)))
                    failure = "exception %s: %s" % (type(exc).__name__, _safe_str(exc))
                    failure += " @ " + "".join(tb.format()[-3:])[-600:]
                    status = VerificationStatus.REFUTED
                elif not ok:
                    with ResumedTracing():
                        space.detach_path()
                    cex = deep_realize(dict(pre_args.arguments))
                    cex.update(deep_realize(dict(_inst.FRESH)))
                    failure = "harness returned %r" % (deep_realize(ret),)
                    status = VerificationStatus.REFUTED
                else:
                    status = VerificationStatus.CONFIRMED
                    out.confirmed_paths += 1
                    if on_confirmed is not None and (sample_when is None or sample_when(out.confirmed_paths)):
                        # detach first: realizing sample values must not add decisions to the search tree
                        try:
                            with ResumedTracing():
                                space.detach_path()
                            on_confirmed({**pre_args.arguments, **_inst.FRESH}, ret)
                        except IgnoreAttempt:
                            pass  # a deferred assumption of an unused argument failed: no sample, the path stays confirmed
            except IgnoreAttempt:
                status = None
                out.ignored_paths += 1
            except UnexploredPath as e:
                status = VerificationStatus.UNKNOWN
                out.unknown_paths += 1
                k = type(e).__name__
                out.unknown_reasons[k] = out.unknown_reasons.get(k, 0) + 1
            except NotDeterministic:
                status = VerificationStatus.UNKNOWN
                out.unknown_paths += 1
                out.unknown_reasons["NotDeterministic"] = out.unknown_reasons.get("NotDeterministic", 0) + 1
            _analysis, exhausted = space.bubble_status(CallAnalysis(status))
        if status == VerificationStatus.REFUTED:
            if confirm_refutation is not None and cex is not None and not confirm_refutation(cex):
                # the counterexample does not reproduce on the real code: a model of the executor (or a harness stub) is
                # imprecise on this path.  The path is inconclusive (the leaf was recorded as refuted in the tree, so it is not
                # revisited); keep looking for a real counterexample elsewhere.
                out.spurious.append({"args": cex, "failure": (failure or "")[:300]})
                out.unknown_paths += 1
                out.unknown_reasons["NotReproducible"] = out.unknown_reasons.get("NotReproducible", 0) + 1
                if len(out.spurious) >= max_spurious:
                    out.notes.append("stopped after %d counterexamples that do not reproduce" % len(out.spurious))
                    break
                continue
            out.status = "refuted"
            out.counterexample = cex
            out.failure = failure
            break
        if exhausted:
            break
    out.exhausted = bool(exhausted)
    if out.status != "refuted":
        if exhausted and out.unknown_paths == 0 and out.confirmed_paths > 0:
            out.status = "confirmed"
        elif exhausted and out.unknown_paths == 0 and out.confirmed_paths == 0:
            out.status = "vacuous"
        else:
            out.status = "unknown"
    out.cpu_s = round(process_time() - cpu0, 3)
    out.wall_s = round(time.time() - wall0, 3)
    out.solver_checks = SOLVER_STATS.n - n0
    out.solver_s = round(SOLVER_STATS.t - t0s, 3)
    return out


def _safe_str(e: BaseException) -> str:
    try:
        return str(e)[:300]
    except Exception as e2:  # noqa: BLE001
        return "<str() failed: %s>" % type(e2).__name__
