"""Hole instances (DESIGN §3.4): query = concrete prefix + k symbolic characters + concrete suffix.

The implementation and the reference recogniser run on the same symbolic text; which postcondition is
asserted depends on the instance's ``mode``:

* ``both``     valid => accepted with the RFC reading of the query; not valid => rejected       (C03+C04+C05)
* ``accept``   only the valid half (precondition: the reference says valid)                       (C03, C01/C02 spelling)
* ``reject``   only the invalid half (precondition: the reference says not well-formed / invalid) (C04, C05)
* ``total``    compile() returns or raises a JSONPathError whose str() can be produced            (C13)
* ``position`` whenever compile() raises: the error's offset lies in the text and the printed line/column are that
               offset's line/column                                                              (C19)
* ``roundtrip`` valid => str(compiled) is valid, reparses to the same normal form and is a fixpoint (C12)
"""
from __future__ import annotations

from typing import Union

from jsonpath_rfc9535.exceptions import JSONPathError

from vtools import hcommon
from vtools.inst import P, assume, exclude_known
from vtools.ref.astnf import astnf_query, ref_nf
from vtools.ref.grammar import RefInvalid, RefParser, RefSyntaxError


def ch_setup() -> None:
    hcommon.install_text_models()
    if P.get("mode") == "roundtrip":
        from vtools import chpatches

        chpatches.install_concrete_float()


def ref_run(q: str, signatures=None):
    rp = RefParser(q, signatures)
    try:
        ast = rp.parse()
        return "valid", ast, rp
    except RefSyntaxError:
        return "syntax", None, rp
    except RefInvalid:
        return "invalid", None, rp


def line_col(q: str, index: int):
    """(1-based line, 0-based column) of offset *index*: LF starts a new line (the convention the tests fix)."""
    line = 1
    col = 0
    for i in range(index):
        if q[i] == "\n":
            line += 1
            col = 0
        else:
            col += 1
    return line, col


def fragment() -> str:
    k = P["k"]
    alphabet = P.get("alphabet")
    if alphabet is None:
        return hcommon.sym_fragment(k)
    # restricted alphabets (e.g. blanks only) are still symbolic: one solver variable per character
    out = []
    for i in range(k):
        c = hcommon.sym_char("c%d" % i)
        ok = False
        for a in alphabet:
            if c == a:
                ok = True
        assume(ok)
        out.append(c)
    return "".join(out)


def h_hole() -> Union[bool, str]:
    q = P["prefix"] + fragment() + P["suffix"]
    mode = P.get("mode", "both")
    env = hcommon.model_env()
    if mode in ("total", "position"):
        try:
            env.compile(q)
            return True
        except JSONPathError as e:
            if mode == "total":
                msg = str(e)
                return True if isinstance(msg, str) else "str(error) is not a string"
            tok = e.token
            if tok is None:
                return "error without a token: %r" % (type(e).__name__,)
            idx = tok.index
            if not (0 <= idx <= len(q)):
                return "error offset %r outside the query text %r" % (idx, q)
            if tok.query != q:
                return "error token refers to another text"
            line, col = line_col(q, idx)
            want = ", line %d, column %d" % (line, col)
            msg = str(e)
            if not msg.endswith(want):
                return "query %r: message %r does not end with %r (offset %r)" % (q, msg, want, idx)
            return True
    verdict, ast, rp = ref_run(q)
    assume(not rp.disputed)
    if mode == "reject":
        assume(verdict != "valid")
    elif mode in ("accept", "roundtrip"):
        assume(verdict == "valid")
    try:
        c = env.compile(q)
        accepted = True
    except JSONPathError:
        accepted = False
    if verdict != "valid":
        if accepted:
            return "%s query accepted: %r" % ("not well-formed" if verdict == "syntax" else "invalid", q)
        return True
    if not accepted:
        return "valid query rejected: %r" % (q,)
    nf = astnf_query(c)
    want = ref_nf(ast)
    if nf != want:
        return "query %r parsed as %r, RFC reading is %r" % (q, nf, want)
    if mode == "roundtrip":
        # numeric literals beyond the range of doubles (1e400 -> inf) are outside C12's domain ("within the exactly
        # representable range"): their str() is 'inf', which is not a literal of the grammar
        assume(not _has_infinite_literal(nf))
        s1 = str(c)
        v1, ast1, _rp1 = ref_run(s1)
        if v1 != "valid":
            return "str(compile(%r)) = %r is not a valid query (%s)" % (q, s1, v1)
        if ref_nf(ast1) != want:
            return "str(compile(%r)) = %r means something else" % (q, s1)
        try:
            c1 = env.compile(s1)
        except JSONPathError:
            return "str(compile(%r)) = %r does not compile" % (q, s1)
        if astnf_query(c1) != nf:
            return "str(compile(%r)) = %r compiles to a different query" % (q, s1)
        s2 = str(c1)
        if s2 != s1:
            return "serialisation is not a fixpoint: %r -> %r -> %r" % (q, s1, s2)
    return True


def _has_infinite_literal(nf) -> bool:
    if isinstance(nf, tuple):
        if len(nf) == 2 and nf[0] == "numval" and isinstance(nf[1], float) and (nf[1] == float("inf") or nf[1] == float("-inf")):
            return True
        for x in nf:
            if _has_infinite_literal(x):
                return True
    return False


def hole_instances(seeds, replace=(0, 1)):
    """(prefix, suffix) for every cut position of every seed, the hole replacing r characters."""
    seen = set()
    out = []
    for q in seeds:
        for r in replace:
            for i in range(len(q) - r + 1):
                inst_ = (q[:i], q[i + r:])
                if inst_ not in seen:
                    seen.add(inst_)
                    out.append(inst_)
    return out


def obligation(oid: str, pre: str, suf: str, k: int, mode: str, timeout: float, **extra):
    params = {"prefix": pre, "suffix": suf, "k": k, "mode": mode}
    params.update(extra)
    return {"id": oid, "module": "vtools.holes", "func": "h_hole", "params": params, "timeout": timeout, "allow_vacuous": mode in ("accept", "reject", "roundtrip") or "alphabet" in extra}


def c_sweep(mode: str, depth: int = 2, chunk: int = 0, nchunks: int = 1):
    """Supplementary *finite enumeration*: every query of the derivation corpus (vtools.derive) through the concrete
    differential / round-trip / totality check (k = 0 hole).  Not a symbolic obligation; labelled as enumeration in evidence."""
    from vtools import derive, inst

    qs = derive.corpus(depth)[chunk::nchunks]
    saved = dict(inst.P)
    n = 0
    try:
        for q in qs:
            inst.P.clear()
            inst.P.update({"prefix": q, "suffix": "", "k": 0, "mode": mode})
            try:
                r = h_hole()
            except inst.PreconditionNotMet:
                r = True
            except Exception as e:  # noqa: BLE001
                r = "exception %s: %s" % (type(e).__name__, str(e)[:200])
            n += 1
            if r is not True:
                return {"status": "refuted", "failure": "derivation %r: %s" % (q, r), "replay_module": "vtools.holes", "replay_func": "h_hole", "replay_args": {},
                        "replay_params": {"prefix": q, "suffix": "", "k": 0, "mode": mode}, "paths": n}
    finally:
        inst.P.clear()
        inst.P.update(saved)
    return {"status": "confirmed", "paths": n, "confirmed_paths": n, "queries": [{"claim": "%d derivations of the ABNF (depth %d) %s" % (n, depth, mode), "result": "finite enumeration, all agree"}]}
